#!/usr/bin/env python3
"""generates /verif/MANIFEST.json from the table below (kept in one place so it stays valid)"""
import json, subprocess, os
CLAIMED = {
 # id: (technique, level text, level note, design ref)
 "C01": ("property-based testing: generated streams vs. independent wire model (differential), proptest with shrinking",
         "Generated-input exploration: every run compares the real DltMessageIterator with an independent encoder/model on 10^4..10^6 generated garbage/message streams incl. near-max payloads and partial markers; failures are shrunk to a replay file. No proof of absence.",
         "trusted: the harness' own DLT v1 encoder (written from the AUTOSAR layout, cross-checked by C02 round trips); streams with markers outside message starts are out of scope (repaired by construction)", "4/C01"),
 "C09": ("property-based testing: tagged-message permutation/order oracle over generated source families",
         "Generated-input exploration of both merge iterators and their single-source variants with tie-rich and empty sources; oracle is a validity predicate (permutation, per-source order, numbering, ordered output).",
         "trusted: std collections; sources numbered from the start index for the single source short cut as documented", "4/C09"),
 "C02": ("property-based testing: write/parse round trip and idempotent normal form on generated messages",
         "Generated-input exploration: every message parsed from generated streams is written with to_write, re-parsed and re-written; field equality, exact consumption, byte-identical second export and order-preserving re-read of the concatenated export are asserted.",
         "trusted: the real parser as source of input messages (decided separately by C01)", "4/C02"),
 "C18": ("property-based testing: three encoders vs. reference encoder/decoder model, canonical-text oracle, truncation/corruption prefix oracle",
         "Generated-input exploration over typed argument lists in both byte orders through the harness encoder, payload_from_args and the serde Serializer; decode agreement (type info, raw bytes), canonical text (floats must parse back bit-exactly) and prefix-decoding of truncated/corrupted payloads.",
         "trusted: String::from_utf8_lossy, encoding_rs WINDOWS_1252, Rust float parsing", "4/C18"),
 "C05": ("property-based testing: history invariant over generated messy multi-ECU traces (output = input except lifecycle, ids valid)",
         "Generated-input exploration of the lifecycle detector with reboots, resumes, buffering delays, bad timestamps, control requests, non-monotonic reception, pre-filled and rendez-vous paced input and pre-populated tables; every forwarded message is compared with its input and its id resolved in the final table.",
         "trusted: evmap; merges are observed indirectly (ids allocated vs delivered)", "4/C05"),
 "C06": ("property-based testing: lookup of every delivered message's lifecycle at the delivery point, same thread and cross-thread hand-shake, consumer thread behind bounded channels",
         "Generated-input exploration; the oracle runs inside the outflow closure (and in a consumer thread) for every delivery of every generated stream.",
         "trusted: evmap memory ordering; interleavings are those induced by hand-shake, pacing and channel capacities (0/1/8)", "4/C06"),
 "C07": ("property-based testing: table/histogram consistency invariant and listing validity predicate over generated messy traces",
         "Generated-input exploration incl. streams with >20 lifecycles, late merges and crossing resume estimates; final table vs delivered ids, listing must be producible, a permutation, resume-after-origin and start-ordered without resumes.",
         "trusted: hook Lifecycle::resume_origin_id (feature adlt_verif) reports the private resume link", "4/C07"),
 "C08": ("property-based testing: generator ground truth (boots) vs detected lifecycles on clean traces",
         "Generated-input exploration of cleanly separated power cycles (1..4 ECUs x 1..6 boots, any order within a boot, delays 0..120 s); exact equality of partition, start, end and counts with the generator's ground truth.",
         "domain: next boot starts >= 1 ms after the last reception of the previous boot (DESIGN 4/C08 domain note)", "4/C08"),
 "C04": ("property-based testing: model-based op sequences on the buffering reader over scripted short-read schedules; differential parse (chunked reader vs whole buffer); suffix metamorphic relation",
         "Generated-input and generated-schedule exploration: the harness owns the read-size schedule of the source, so refills, compactions and boundary fills (low mark -3..+7) are produced deliberately; reader vs (data,position) model after every op, iterator results over the reader vs over a Cursor incl. 65 KB messages and injected markers.",
         "low mark for the iterator differential is DLT_MAX_STORAGE_MSG_SIZE as both callers use; open finding F04 excluded by input class (counted) and reported as KNOWN-FINDING", "4/C04"),
 "C10": ("property-based testing: permutation oracle on arbitrary input; constructed bounded-delay streams with recomputed calculated times as ordering oracle",
         "Generated-input exploration: permutation for messy traces (table from the real detector, or arbitrary/unknown ids), ordering for streams constructed to satisfy the stated bound exactly (several ECUs/lifecycles, control requests, capped messages, windows 1..10 s, min delay 0..60 s).",
         "calculated time is recomputed by the harness from the statement; times are multiples of 0.1 ms so the bound holds exactly", "4/C10"),
 "C11": ("property-based testing: reference matcher vs Filter::matches through each front-end printer/parser (differential), JSON round trip (metamorphic)",
         "Generated-input exploration over abstract filters x messages; each front-end (JSON, DLF, dlt-convert list; ECU:APID:CTID via the binary in C14) is fed the printed form of the abstract filter and must decide like the reference; every loaded filter is serialised and re-loaded and must decide identically.",
         "trusted: regex / fancy-regex engines; hand-written id pattern evaluator cross-checked against regex::bytes on every case", "4/C11"),
 "C12": ("property-based testing: reference keep(set,msg) vs filter_as_streams and StreamContext::from+match_filters",
         "Generated-input exploration over filter sets of all kinds and message streams; selection, order, unchanged messages and counts for the stream filter; decision equality for the set matcher incl. several event filters.",
         "container for match_filters is built through StreamContext::from (drops disabled filters) as the real callers do", "4/C12"),
 "C17": ("property-based testing with single-fault injection: generated transfers/interleavings/faults vs. expected completion table, byte-exact save, directory snapshot oracle",
         "Generated-input and generated-fault exploration of the file transfer plugin through its public constructor, process_msg, state tree and save command; faults are enumerated by kind (drop, duplicate, swap, resize, missing announcement, missing end marker) at generated positions; file system effects are checked by before/after snapshots of a sandbox.",
         "trusted: glob crate for the expected auto-save selection; a transfer with missing announcement may or may not complete (if it does, content must be identical)", "4/C17"),
 "C20": ("property-based testing: model-based op sequences (SeekableChain vs Cursor); generated zip archives with hostile names vs. extraction oracle with directory snapshots",
         "Generated-history exploration of the volume chain against std::io::Cursor over the concatenation; generated archives (own stored writer incl. duplicate/hostile names, deflate via zip crate, multi volume on disk) through list/extract_to_dir/extract_archives with glob patterns.",
         "out-of-range seeks are outside the equivalence oracle; glob crate trusted; zip crate's reader is part of the system under test", "4/C20"),
 "C19": ("property-based testing: input/output stream invariant through generated plugin subsets and orders; anonymiser mapping (function+injective) and lifecycle-structure metamorphic relation",
         "Generated-input/configuration exploration: trigger-shaped and arbitrary traffic through every subset/order of the decoder plugins built from the repository configs; per message only text / missing extended header / (rewrite) timestamp may differ; anonymised vs original trace give identical lifecycle partition and boundaries.",
         "plugins configured from /repo/tests; the repository FIBEX has no CAN channel so the CAN plugin is only exercised as pass-through", "4/C19"),
 "C14": ("property-based testing at binary level: generated input files and option combinations vs. the harness' own merge/selection oracle; metamorphic relation on permuted file arguments",
         "Generated-configuration exploration against the adlt binary rebuilt from the working tree: stdout lines, re-read -o file and lifecycle listing are compared with an independent model of file grouping/chaining/merging, index window, lifecycle set and filter-set rules; permuted file arguments must give byte-identical output.",
         "clean traces only (lifecycle ground truth); text lines rendered with the library's header/payload text functions; -f and --eac form one filter set", "4/C14"),
 "C15": ("stateful property-based testing (model-based command histories) against the adlt remote binary over websocket; parser progress owned through the adlt_verif schedule hook",
         "Generated-history exploration: command sequences from a grammar with valid/invalid forms are sent to a server process rebuilt from the working tree; a model of {open, mode, live ids} derived from the replies predicts each reply kind; exactly-one-reply, no stray reply, connection/process survival and close/open liveness are asserted after every history.",
         "one server process per history; reply timeout 20 s (60 s close) counts as violation; interleavings with parsing are sampled via the throttle schedule, not enumerated", "4/C15"),
 "C16": ("property-based testing: (A) model-based histories on the incremental stream index (library); (B) generated sessions against the adlt remote binary with a reference filtered sequence as oracle",
         "Generated-history exploration: A drives process_stream_new_msgs like the server loop with generated batching/chunking/window changes and checks the index invariant and bounded progress after every call; B runs generated logs, filter sets, windows, window changes, search paging and lookups over websocket (arrival varied through pause/resume and the parser throttle hook) and compares every delivered frame with the reference.",
         "queries issued while parsing is still running: only prefix-correctness; time lookups only on strictly increasing times; delivery waits are bounded (8 s) and a missing delivery is a violation", "4/C16"),
 "C13": ("property-based testing over schedules: generated channel capacities and producer/consumer pacing scripts; differential against the same pipeline with unbounded channels; termination by progress watchdog",
         "Generated-schedule exploration: pipelines built from the public stage functions and the blocking-send helper with per-link capacities {0,1,2,7,64}, stalls at generated positions and early consumer drops; output and final lifecycle table are compared with the unbounded reference, and every stage has to terminate.",
         "interleavings are sampled via capacities/pacing, not enumerated; a race needing one specific preemption point can be missed; blocked = no progress on any link for 15 s", "4/C13"),
 "C03": ("property-based testing and coverage-guided fuzzing: structured hostile generators, corpus mutation, text grammars through one chain function in isolated worker processes; libFuzzer targets with the same oracle (thorough)",
         "Generated-input exploration of the whole ingestion/analysis chain with crash/overflow/allocation oracle (overflow checks and debug assertions on, counting allocator, worker processes so that aborts are attributed to the case); thorough tier adds libFuzzer campaigns (chain with and without plugins) whose artifacts are re-checked by the deterministic harness.",
         "absence of crashes over all byte strings is never established; detector/sorter capacity hints are outside the allocation oracle; blf not driven", "4/C03"),
}
PENDING = {}
def main():
    props=[json.loads(l) for l in open('/verif/properties.jsonl')]
    commits=subprocess.check_output(['git','-C','/repo','log','--format=%H %s']).decode().splitlines()
    hooks=[c.split()[0] for c in commits if ' verif hook:' in c]
    checks=[]; na=[]
    for p in props:
        i=p['id']
        if i in CLAIMED:
            tech,text,note,ref=CLAIMED[i]
            checks.append({
              "property_id":i,
              "quick_cmd":f"./check {i} quick",
              "thorough_cmd":f"./check {i} thorough",
              "evidence_file":f"/verif/evidence/{i}.json",
              "replay_cmd_template":"./check replay {path}",
              "engine":"adlt-verif",
              "level_claimed":{"category":"exploration","text":text,"design_ref":f"DESIGN.md section {ref}"},
              "level_note":note,
              "technique":tech})
        else:
            na.append({"property_id":i,"reason":PENDING.get(i,"check not built yet in this revision of /verif (planned: property-based testing, see DESIGN.md section 4); not claimed until it runs")})
    m={"version":1,
       "setup_cmd":"./setup.sh",
       "hooks":{"guard":"cargo feature adlt_verif (off by default)",
                "enable":"the harness depends on adlt with features=[\"adlt_verif\"]; the adlt binary used by binary-level checks is built with --features adlt_verif",
                "baseline_off_cmd":"cd /repo/$(cat /w/out/cargo_root.txt) && cargo nextest run --workspace --no-fail-fast --tool-config-file pb:/w/lib/nextest.toml --profile pb --test-threads 8 --offline",
                "source_commits":hooks,
                "add_only":True},
       "engines":[{"name":"adlt-verif","path":"/verif/harness","serves_properties":sorted(CLAIMED.keys()),
                   "kind_free_text":"Rust harness: proptest strategies with per-case seeds (pure function of VERIF_SEED), shrinking, worker processes, replay files, known-findings list; libFuzzer targets in /verif/fuzz for thorough tiers"}],
       "checks":checks,
       "notes":"exit codes: 0 held, 1 VIOLATION line printed, 2 inconclusive (build failure, watchdog, generator health). Known findings: /verif/known_findings.json with pinned reproducers in /verif/findings.",
       "not_applicable":na}
    json.dump(m,open('/verif/MANIFEST.json','w'),indent=1)
main()
