#!/usr/bin/env python3
import json,sys
pid=sys.argv[1]; d=sys.argv[2]; extra=sys.argv[3] if len(sys.argv)>3 else ""
p=[json.loads(l) for l in open('/verif/properties.jsonl') if json.loads(l)['id']==pid][0]
print(f"""You are working in a scratch git worktree of the Rust project mbehr1/adlt at {d} (library + CLI `adlt` for parsing, lifecycle-detecting, sorting, filtering and serving automotive DLT log files). Work ONLY inside {d} (plus throw-away files under /tmp). Never touch /repo or /verif. There is no network; always use `CARGO_NET_OFFLINE=true` / `--offline`.

TASK: produce a realistic code change to the sources under {d}/src (the kind of slip a developer could plausibly make: off-by-one, wrong comparison, dropped call, state not reset, refactoring slip, wrong variable - not gratuitous sabotage) that BREAKS the semantic property below, while the code still compiles and the project's existing test suite still passes.

PROPERTY {pid}: {p['title']}
Statement: {p['statement']}
Quantified over: {p['quantifier']['text']}
Relevant source files: {', '.join(p['anchors']['files'])}

The change must need something specific to manifest - a particular input shape, a multi-step sequence of operations, a particular interleaving/arrival pattern, an unusual input, or two cooperating code sites that each look fine alone - NOT something that ordinary use or the existing tests would expose at once. {extra}

DELIVERABLES (all inside {d}/seed/):
1. patch.diff  - output of `git diff -- src` (only your change to the sources; no test files in it).
2. a demonstration: a Rust integration test file `seed_demo.rs` (to be placed in {d}/tests/, using only the public API of crate `adlt` or driving the built binary via assert_cmd like tests/integration_bin.rs does) that FAILS with your change and PASSES without it. Keep a copy in {d}/seed/seed_demo.rs.
3. meta.json - {{"property": "{pid}", "summary": "...what was changed...", "needs": "...what it needs in order to manifest...", "files_changed": [...], "demo_run": "cargo test --offline --test seed_demo"}}

YOU MUST VERIFY ALL OF THIS YOURSELF before finishing:
 a) `cargo build --offline` succeeds with the change (use `-j 6`).
 b) the demo test passes on the unmodified sources (e.g. `git stash` the src change or `git apply -R seed/patch.diff`) and fails with the change.
 c) the existing suite still passes with the change (with your demo test file moved away): run exactly
    `cd {d} && CARGO_NET_OFFLINE=true cargo nextest run --workspace --no-fail-fast --tool-config-file pb:/w/lib/nextest.toml --profile pb --test-threads 4 --offline`
    (takes 6-8 minutes; WITHOUT the --profile pb/--tool-config-file options it hangs forever). In the unmodified project the test `bin_remote_invalidport` always times out and `bin_remote_ex002_open`/`bin_remote_ex002_stream` are flaky - ignore those three; every other test must pass.
Leave the worktree with your src change applied and the seed/ directory filled. Final answer: a short summary (what changed, why tests do not notice, how the demo shows it, results of a/b/c).""")
