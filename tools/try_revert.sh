#!/bin/bash
# sensitivity helper: reverse-apply a fix commit of /repo (re-introduces the defect), run a check, restore.
# usage: tools/try_revert.sh <commit> <Cxx> [tier]
set -u
C=$1; P=$2; T=${3:-quick}
cd /repo || exit 2
if ! git diff --quiet; then echo "/repo has uncommitted changes"; exit 2; fi
git show "$C" | git apply -R || { echo "cannot reverse apply"; exit 2; }
# evidence written while /repo is modified must not replace the evidence of the unchanged tree
cp /verif/evidence/$P.json /tmp/evidence_$P.$$ 2>/dev/null
timeout 1500 /verif/check "$P" "$T"; RC=$?
git -C /repo checkout -- .
[ -f /tmp/evidence_$P.$$ ] && mv /tmp/evidence_$P.$$ /verif/evidence/$P.json
echo "== revert of $C -> $P $T exit $RC"
exit 0
