#!/bin/bash
# sensitivity regression: every kept seeded change must still be caught by the quick tier of its property.
# usage: [ADLT_REPO=<repo copy>] tools/regress_seeds.sh [seed ids...]   (patches $ADLT_REPO, default /repo; restores it)
R=${ADLT_REPO:-/repo}; V=$(cd "$(dirname "$0")/.."; pwd)
ids="$*"; [ -z "$ids" ] && ids=$(ls $V/seeded)
if ! git -C $R diff --quiet; then echo "$R has uncommitted changes"; exit 2; fi
missed=0
for id in $ids; do
  d=$V/seeded/$id; p=${id:0:3}
  case $id in C13b) p=C05;; C13c) p=C15;; C12d) p=C16;; esac
  git -C $R apply $d/patch.diff || { echo "$id cannot apply"; continue; }
  cp $V/evidence/$p.json /tmp/evidence_$p.$$ 2>/dev/null
  timeout 1500 $V/check $p quick > /tmp/regress_$id.log 2>&1; rc=$?
  git -C $R checkout -- .
  [ -f /tmp/evidence_$p.$$ ] && mv /tmp/evidence_$p.$$ $V/evidence/$p.json
  [ $rc = 1 ] || missed=$((missed+1))
  echo "$id -> $p exit $rc $(grep -a -m1 failure /tmp/regress_$id.log | cut -c1-160)"
done
find $V/replays -type f -delete 2>/dev/null
echo "== seeds not caught: $missed"
