#!/bin/bash
# confirm a seeded change produced by a sub-agent in its scratch worktree:
#  demo fails with the patch, passes without, existing suite passes with the patch.
# usage: tools/confirm_seed.sh <worktree>    (writes <worktree>/seed/confirm.log)
D=$1
cd "$D" || exit 2
export CARGO_NET_OFFLINE=true
L=$D/seed/confirm.log
: > "$L"
git checkout -q -- src 2>/dev/null
cp seed/seed_demo.rs tests/seed_demo.rs
echo "== demo WITHOUT patch" >> "$L"
cargo test --offline -j 6 --test seed_demo >> "$L" 2>&1; echo "exit_without=$?" >> "$L"
git apply seed/patch.diff || { echo "patch does not apply" >> "$L"; exit 1; }
echo "== demo WITH patch" >> "$L"
cargo test --offline -j 6 --test seed_demo >> "$L" 2>&1; echo "exit_with=$?" >> "$L"
rm -f tests/seed_demo.rs
echo "== suite WITH patch" >> "$L"
cargo nextest run --workspace --no-fail-fast --tool-config-file pb:/w/lib/nextest.toml --profile pb --test-threads 4 --offline >> "$L" 2>&1; echo "exit_suite=$?" >> "$L"
grep -a -E "exit_|Summary|FAIL|TIMEOUT" "$L" | sort | uniq -c | tail -20
