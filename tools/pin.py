#!/usr/bin/env python3
"""pin a replay file as reproducer of a listed finding: tools/pin.py <replay.json> <Fxx> [suffix]"""
import json,sys
r=json.load(open(sys.argv[1])); fid=sys.argv[2]; suf=sys.argv[3] if len(sys.argv)>3 else ''
r['finding']=fid
name=f"findings/{fid}_{r['property']}{suf}.json"
json.dump(r,open('/verif/'+name,'w'))
k=json.load(open('/verif/known_findings.json'))
for e in k:
    if e['id']==fid and name not in e['repro']: e['repro'].append(name)
json.dump(k,open('/verif/known_findings.json','w'),indent=1)
print("pinned",name, r.get('message','')[:200])
