#!/bin/bash
# sensitivity helper: apply a patch to /repo, run a check, restore.
# usage: tools/try_patch.sh <patch.diff> <Cxx> [tier]
set -u
D=$1; P=$2; T=${3:-quick}
cd /repo || exit 2
if ! git diff --quiet; then echo "/repo has uncommitted changes"; exit 2; fi
git apply "$D" || { echo "cannot apply"; exit 2; }
timeout 1500 /verif/check "$P" "$T"; RC=$?
git -C /repo checkout -- .
echo "== patch $D -> $P $T exit $RC"
exit 0
