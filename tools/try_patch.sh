#!/bin/bash
# sensitivity helper: apply a patch to /repo, run a check, restore.
# usage: tools/try_patch.sh <patch.diff> <Cxx> [tier]
set -u
D=$1; P=$2; T=${3:-quick}
cd /repo || exit 2
if ! git diff --quiet; then echo "/repo has uncommitted changes"; exit 2; fi
git apply "$D" || { echo "cannot apply"; exit 2; }
# evidence written while /repo is modified must not replace the evidence of the unchanged tree
cp /verif/evidence/$P.json /tmp/evidence_$P.$$ 2>/dev/null
timeout 1500 /verif/check "$P" "$T"; RC=$?
git -C /repo checkout -- .
[ -f /tmp/evidence_$P.$$ ] && mv /tmp/evidence_$P.$$ /verif/evidence/$P.json
echo "== patch $D -> $P $T exit $RC"
exit 0
