#!/bin/bash
# tools/pin_from_revert.sh <commit> <Cxx> <Fxx> [suffix] : reverse apply fix, run check, pin the smallest counterexample as reproducer
C=$1; P=$2; F=$3; S=${4:-}
rm -f /verif/replays/${P}_*
/verif/tools/try_revert.sh $C $P quick > /tmp/pin_$P.log 2>&1
grep -E "^== " /tmp/pin_$P.log
R=$(ls -S /verif/replays/${P}_* 2>/dev/null | tail -1)
if [ -z "$R" ]; then echo "NO REPLAY for $F $P"; exit 1; fi
python3 /verif/tools/pin.py "$R" "$F" "$S"
