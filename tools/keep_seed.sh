#!/bin/bash
# confirm a seeded change in its worktree; on success keep it as /verif/seeded/<id>/ and remove the worktree
# usage: tools/keep_seed.sh <worktree> <id>
D=$1; ID=$2
if [ ! -f $D/seed/confirm.log ] || ! grep -a -q exit_suite $D/seed/confirm.log; then /verif/tools/confirm_seed.sh $D > /dev/null 2>&1; fi
L=$D/seed/confirm.log
W=$(grep -a -c "^exit_without=0" $L); X=$(grep -a "^exit_with=" $L | grep -a -vc "=0"); 
SUM=$(grep -a "Summary" $L | tail -1)
BAD=$(grep -a -E "^\s+(FAIL|TIMEOUT)" $L | grep -v bin_remote_invalidport | grep -v bin_remote_ex002 | wc -l)
echo "$ID: without_ok=$W with_fails=$X other_failures=$BAD :: $SUM"
if [ "$W" = 1 ] && [ "$X" = 1 ] && [ "$BAD" = 0 ] && [ -n "$SUM" ]; then
  mkdir -p /verif/seeded/$ID
  cp $D/seed/patch.diff $D/seed/seed_demo.rs /verif/seeded/$ID/
  python3 - "$D" "$ID" "$SUM" <<'PY'
import json,sys
d,i,s=sys.argv[1:4]
try: m=json.load(open(d+'/seed/meta.json'))
except Exception as e: m={"note":"meta.json of the sub-agent unreadable: %s"%e}
m['confirmed']={"by":"tools/confirm_seed.sh in the scratch worktree","demo_without_patch":"pass","demo_with_patch":"fail","suite_with_patch":s.strip(),"ignored":"bin_remote_invalidport (always fails in baseline), bin_remote_ex002_* (flaky in baseline)"}
json.dump(m,open('/verif/seeded/%s/meta.json'%i,'w'),indent=1)
PY
  git -C /repo worktree remove --force $D && echo "kept $ID, worktree removed"
else
  echo "NOT confirmed: $ID (see $L)"
fi
