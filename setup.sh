#!/bin/bash
# setup_cmd: offline build of the harness and of the adlt binary from /repo's working tree
cd /verif || exit 1
export CARGO_NET_OFFLINE=true
exec ./check build
