#!/bin/bash
# setup_cmd: offline build of the harness and of the adlt binary from /repo's working tree
cd "$(dirname "${BASH_SOURCE[0]}")" || exit 1
export CARGO_NET_OFFLINE=true
exec ./check build
