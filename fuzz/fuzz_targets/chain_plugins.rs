#![no_main]
// libFuzzer target: the semantic oracle lives in adlt_verif::fuzzing (same code as the deterministic replay)
use libfuzzer_sys::fuzz_target;
fuzz_target!(|data: &[u8]| {
    adlt_verif::fuzzing::fuzz_entry("chain_plugins", data);
});
