//! C03: the whole ingestion/analysis chain as one function (used by the proptest workers and the libFuzzer targets)
use adlt::dlt::*;
use adlt::filter::Filter;
use adlt::lifecycle::*;
use adlt::plugins::plugin::Plugin;
use adlt::utils::*;
use std::alloc::{GlobalAlloc, Layout, System};
use std::io::Cursor;
use std::sync::atomic::{AtomicBool, AtomicUsize, Ordering};
use std::sync::mpsc::channel;

// ---------------------------------------------------------------------------------------
// allocation watch: largest single request while a scope is active
pub struct WatchAlloc;
static WATCH_ON: AtomicBool = AtomicBool::new(false);
static WATCH_MAX: AtomicUsize = AtomicUsize::new(0);
/// bytes allocated and not yet freed since the scope began (allocations from before the scope that are freed inside
/// only make it smaller) and its peak: many medium sized reservations add up
static WATCH_LIVE: std::sync::atomic::AtomicIsize = std::sync::atomic::AtomicIsize::new(0);
static WATCH_PEAK: std::sync::atomic::AtomicIsize = std::sync::atomic::AtomicIsize::new(0);
fn live_add(d: isize) {
    let l = WATCH_LIVE.fetch_add(d, Ordering::Relaxed) + d;
    if d > 0 {
        WATCH_PEAK.fetch_max(l, Ordering::Relaxed);
    }
}
unsafe impl GlobalAlloc for WatchAlloc {
    unsafe fn alloc(&self, l: Layout) -> *mut u8 {
        if WATCH_ON.load(Ordering::Relaxed) {
            WATCH_MAX.fetch_max(l.size(), Ordering::Relaxed);
            live_add(l.size() as isize);
        }
        System.alloc(l)
    }
    unsafe fn dealloc(&self, p: *mut u8, l: Layout) {
        if WATCH_ON.load(Ordering::Relaxed) {
            live_add(-(l.size() as isize));
        }
        System.dealloc(p, l)
    }
    unsafe fn realloc(&self, p: *mut u8, l: Layout, n: usize) -> *mut u8 {
        if WATCH_ON.load(Ordering::Relaxed) {
            WATCH_MAX.fetch_max(n, Ordering::Relaxed);
            live_add(n as isize - l.size() as isize);
        }
        System.realloc(p, l, n)
    }
    unsafe fn alloc_zeroed(&self, l: Layout) -> *mut u8 {
        if WATCH_ON.load(Ordering::Relaxed) {
            WATCH_MAX.fetch_max(l.size(), Ordering::Relaxed);
            live_add(l.size() as isize);
        }
        System.alloc_zeroed(l)
    }
}
fn watch<T>(f: impl FnOnce() -> T) -> (T, usize) {
    WATCH_MAX.store(0, Ordering::Relaxed);
    WATCH_LIVE.store(0, Ordering::Relaxed);
    WATCH_PEAK.store(0, Ordering::Relaxed);
    WATCH_ON.store(true, Ordering::Relaxed);
    let r = f();
    WATCH_ON.store(false, Ordering::Relaxed);
    (r, WATCH_MAX.load(Ordering::Relaxed))
}
/// peak of the live bytes of the last watched scope
fn last_peak() -> usize {
    WATCH_PEAK.load(Ordering::Relaxed).max(0) as usize
}

/// the repository's tests directory (example files, plugin configs); ADLT_REPO overrides /repo (used for snapshot runs)
pub fn repo_tests() -> String {
    format!("{}/tests", std::env::var("ADLT_REPO").unwrap_or_else(|_| "/repo".to_string()))
}

pub fn can_fibex_dir() -> String {
    crate::engine::verif_dir().join("data/can_fibex").to_string_lossy().into_owned()
}

pub fn mk_plugins() -> Vec<Box<dyn Plugin + Send>> {
    let mut eac = eac_stats::EacStats::new();
    let mut v: Vec<Box<dyn Plugin + Send>> = vec![];
    let rewrite: serde_json::Value = std::fs::read_to_string(format!("{}/rewrite.cfg", repo_tests())).ok().and_then(|s| serde_json::from_str(&s).ok()).unwrap_or(serde_json::json!({"name":"Rewrite","rewrites":[]}));
    for cfg in [
        serde_json::json!({"name":"FileTransfer","allowSave":true}),
        serde_json::json!({"name":"NonVerbose","fibexDir":repo_tests()}),
        serde_json::json!({"name":"SomeIp","fibexDir":repo_tests()}),
        // (the repository has no FIBEX with a CAN channel: /verif/data/can_fibex/can1.xml describes one, so that the
        // decoding paths of the plugin run as well)
        serde_json::json!({"name":"CAN","fibexDir":can_fibex_dir()}),
        serde_json::json!({"name":"Muniic","jsonDir":format!("{}/muniic", repo_tests())}),
        rewrite,
    ] {
        if let Some(p) = adlt::plugins::factory::get_plugin(cfg.as_object().unwrap(), &mut eac) {
            v.push(p);
        }
    }
    v.push(Box::new(adlt::plugins::anonymize::AnonymizePlugin::new("anon")));
    v
}

pub struct ChainStats {
    pub msgs: usize,
    pub lifecycles: usize,
    /// largest single allocation request in the parsing and plugin scopes
    pub max_alloc_parse: usize,
    pub max_alloc_plugins: usize,
    /// peak of the bytes that were allocated and not yet freed inside the plugin scope
    pub peak_live_plugins: usize,
}

fn filters() -> Vec<Filter> {
    [
        r#"{"type":0,"payloadRegex":"a.*b","ignoreCasePayload":true}"#,
        r#"{"type":0,"apid":"A.*","logLevelMax":4,"payload":"x"}"#,
        r#"{"type":1,"payloadRegex":"(?=.*err)(?!.*ok)^.{3,}$"}"#,
        r#"{"type":0,"ecu":"ECU1","ctid":"^(T|C)","lifecycles":[1,2,3],"logLevelMin":2}"#,
        r#"{"type":3,"verb_mstp_mtin":38,"payload":"Version","ignoreCasePayload":true}"#,
    ]
    .iter()
    .map(|j| Filter::from_json(j).unwrap())
    .collect()
}

/// run everything C03 names on one input. Panics propagate to the caller.
pub fn chain(ext: &str, data: &[u8], with_plugins: bool) -> ChainStats {
    chain_opts(ext, data, with_plugins, 5000)
}
pub fn chain_opts(ext: &str, data: &[u8], with_plugins: bool, max_msgs: usize) -> ChainStats {
    let ns = get_new_namespace();
    let (msgs, max_alloc_parse) = watch(|| {
        let it = get_dlt_message_iterator(ext, 0, std::io::BufReader::with_capacity(128 * 1024, Cursor::new(data)), ns, None, Some(1_600_000_000_000_000), None);
        let mut msgs: Vec<DltMessage> = it.take(max_msgs).collect();
        // the command line tools read text formats twice: the second time with the reception time of the first
        // message of the first pass as reference time
        if ext != "dlt" && data.len() % 2 == 0 {
            if let Some(t) = msgs.first().map(|m| m.reception_time_us) {
                let ns2 = get_new_namespace();
                let it = get_dlt_message_iterator(ext, 0, std::io::BufReader::with_capacity(128 * 1024, Cursor::new(data)), ns2, Some(t), Some(1_600_000_000_000_000), None);
                msgs = it.take(max_msgs).collect();
            }
        }
        let mut eac = eac_stats::EacStats::new();
        let mut sink = Vec::new();
        for m in &msgs {
            let _ = m.header_as_text_to_write(&mut sink);
            let _ = m.payload_as_text();
            for a in m.into_iter() {
                let _ = a.payload_raw.len();
            }
            let _ = m.to_write(&mut sink);
            eac.add_msg(m);
            sink.clear();
        }
        msgs
    });
    let n = msgs.len();
    let (tx, rx) = channel();
    for m in msgs.iter().cloned() {
        tx.send(m).unwrap();
    }
    drop(tx);
    let (lcs_r, lcs_w) = evmap::Options::default().with_hasher(nohash_hasher::BuildNoHashHasher::<LifecycleId>::default()).construct::<LifecycleId, LifecycleItem>();
    let (tx2, rx2) = channel();
    let _w = parse_lifecycles_buffered_from_stream(lcs_w, rx, &|m| tx2.send(m));
    drop(tx2);
    let mut lifecycles = 0;
    if let Some(r) = lcs_r.read() {
        let l = get_sorted_lifecycles_as_vec(&r);
        lifecycles = l.len();
        for lc in l {
            let _ = (lc.end_time(), lc.resume_time(), lc.resume_start_time(), lc.suspend_duration(), lc.only_control_requests(), lc.is_resume(), lc.was_merged());
        }
    }
    let (tx3, rx3) = channel();
    let _ = buffer_sort_messages(rx2, &|m| tx3.send(m), &lcs_r, 3, 2_000_000);
    drop(tx3);
    let fs = filters();
    let sorted: Vec<DltMessage> = rx3.into_iter().collect();
    for m in &sorted {
        for (i, f) in fs.iter().enumerate() {
            // (the look-around expression backtracks quadratically: 30 s on a 64 KB payload - the harness' own cost)
            if i == 2 && m.payload.len() > 8192 {
                continue;
            }
            let _ = f.matches(m);
        }
    }
    let mut max_alloc_plugins = 0;
    let mut peak_live_plugins = 0;
    if with_plugins {
        let (_, a) = watch(|| {
            let mut plugins = mk_plugins();
            for p in plugins.iter_mut() {
                p.set_lifecycle_read_handle(&lcs_r);
            }
            for mut m in sorted {
                for p in plugins.iter_mut() {
                    if !p.process_msg(&mut m) {
                        break;
                    }
                }
                let _ = m.payload_as_text();
            }
            for p in plugins.iter_mut() {
                p.sync_all();
                let _ = p.state().read().map(|s| s.generation);
            }
        });
        max_alloc_plugins = a;
        peak_live_plugins = last_peak();
    }
    ChainStats { msgs: n, lifecycles, max_alloc_parse, max_alloc_plugins, peak_live_plugins }
}

/// allocation bound of C03: a single request may not exceed this in the parse/plugin scopes
pub fn alloc_limit(input_len: usize) -> usize {
    64 * 1024 * 1024 + 64 * input_len
}
