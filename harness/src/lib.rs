pub mod engine;
pub mod model;
pub mod props;
