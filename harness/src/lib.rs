pub mod chain;
pub mod engine;
pub mod fuzzing;
pub mod model;
pub mod props;

#[global_allocator]
static GLOBAL: chain::WatchAlloc = chain::WatchAlloc;
