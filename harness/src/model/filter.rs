//! M-FILTER: abstract filters, a reference `matches` written from the property text, printers to the front-ends
use adlt::dlt::*;
use proptest::prelude::*;
use serde::{Deserialize, Serialize};

pub const ID_UNIVERSE: [&[u8; 4]; 7] = [b"ECU1", b"ECU2", b"AB\0\0", b"ABC\0", b"A\0\0\0", b"SYS\0", b"ABCD"];
pub const PAY_WORDS: [&str; 11] = ["error", "Error", "ERROR code 42", "warning low", "state=on", "Alpha beta", "x", "boot done 7", "a.b c+ (on", "aXb cc [0", " a<b&c>d "];

/// one position of a simple id pattern
#[derive(Clone, Debug, Serialize, Deserialize, PartialEq, Eq)]
pub enum Atom {
    B(u8),
    Any,
    OneOf(Vec<u8>),
}
/// regex from a small grammar; `alts` = alternatives, each an optionally anchored atom sequence (unanchored = contains)
#[derive(Clone, Debug, Serialize, Deserialize, PartialEq, Eq)]
pub struct IdRe {
    pub alts: Vec<(bool, Vec<Atom>)>,
}
impl IdRe {
    pub fn pattern(&self) -> String {
        self.alts
            .iter()
            .map(|(anch, atoms)| {
                let mut s = String::new();
                if *anch {
                    s.push('^');
                }
                for a in atoms {
                    match a {
                        Atom::B(b) => s.push(*b as char),
                        Atom::Any => s.push('.'),
                        Atom::OneOf(set) => {
                            s.push('[');
                            for c in set {
                                s.push(*c as char);
                            }
                            s.push(']');
                        }
                    }
                }
                s
            })
            .collect::<Vec<_>>()
            .join("|")
    }
    /// hand written evaluation on the raw 4 id bytes
    pub fn eval(&self, id: &[u8; 4]) -> bool {
        self.alts.iter().any(|(anch, atoms)| {
            let n = atoms.len();
            if n > 4 {
                return false;
            }
            let starts: Vec<usize> = if *anch { vec![0] } else { (0..=4 - n).collect() };
            starts.into_iter().any(|s| {
                atoms.iter().enumerate().all(|(i, a)| match a {
                    Atom::B(b) => id[s + i] == *b,
                    Atom::Any => id[s + i] != b'\n',
                    Atom::OneOf(set) => set.contains(&id[s + i]),
                })
            })
        })
    }
    pub fn has_regex_char(&self) -> bool {
        let p = self.pattern();
        p.contains(|c| "^$*+?()[]{}|.-\\=!<>,".contains(c))
    }
}

#[derive(Clone, Debug, Serialize, Deserialize, PartialEq, Eq)]
pub enum IdCrit {
    /// literal: up to 6 printable chars without regex chars; the first 4 count
    Lit(String),
    Re(IdRe),
}
impl IdCrit {
    pub fn holds(&self, id: &[u8; 4]) -> bool {
        match self {
            IdCrit::Lit(s) => {
                let mut b = [0u8; 4];
                for (i, c) in s.bytes().take(4).enumerate() {
                    b[i] = c;
                }
                &b == id
            }
            IdCrit::Re(r) => r.eval(id),
        }
    }
}

#[derive(Clone, Debug, Serialize, Deserialize, PartialEq, Eq)]
pub enum MType {
    Mstp(u8),
    Vmm(u8),
}
#[derive(Clone, Debug, Serialize, Deserialize, PartialEq, Eq)]
pub enum PayCrit {
    Lit(String),
    Re(String),
}

#[derive(Clone, Debug, Serialize, Deserialize, PartialEq, Eq)]
pub struct AF {
    pub kind: u8,
    pub enabled: bool,
    pub negated: bool,
    pub ecu: Option<IdCrit>,
    pub apid: Option<IdCrit>,
    pub ctid: Option<IdCrit>,
    pub mtype: Option<MType>,
    pub level_min: Option<u8>,
    pub level_max: Option<u8>,
    pub payload: Option<PayCrit>,
    pub ignore_case: bool,
    pub lifecycles: Option<Vec<u32>>,
    /// JSON printing: give xxxIsRegex explicitly (true) or rely on auto detection (false, only where unambiguous)
    pub explicit_regex_flags: bool,
}

/// abstract message for filter checks
#[derive(Clone, Debug, Serialize, Deserialize, PartialEq, Eq)]
pub struct FMsg {
    pub ecu: u8,
    pub ext: Option<(u8, u8, u8)>, // vmm, apid idx, ctid idx
    pub lifecycle: u32,
    pub word: u8,
    pub text_preset: bool, // payload text set via set_payload_text or decoded from a verbose string argument
    pub odd_ecu: Option<[u8; 4]>,
}

impl FMsg {
    pub fn text(&self) -> &'static str {
        PAY_WORDS[self.word as usize % PAY_WORDS.len()]
    }
    pub fn ecu_bytes(&self) -> [u8; 4] {
        self.odd_ecu.unwrap_or(*ID_UNIVERSE[self.ecu as usize % ID_UNIVERSE.len()])
    }
    pub fn build(&self, index: u32) -> DltMessage {
        let text = self.text();
        let mut m = DltMessage {
            index,
            reception_time_us: 1_600_000_000_000_000 + index as u64,
            ecu: DltChar4::from_buf(&self.ecu_bytes()),
            timestamp_dms: index,
            standard_header: DltStandardHeader { htyp: 0x30 | if self.ext.is_some() { 1 } else { 0 }, mcnt: index as u8, len: 0 },
            extended_header: self.ext.map(|(vmm, a, c)| DltExtendedHeader {
                verb_mstp_mtin: if self.text_preset { vmm } else { vmm | 1 },
                noar: 1,
                apid: DltChar4::from_buf(ID_UNIVERSE[a as usize % ID_UNIVERSE.len()]),
                ctid: DltChar4::from_buf(ID_UNIVERSE[c as usize % ID_UNIVERSE.len()]),
            }),
            payload: crate::model::trace::string_payload(text),
            payload_text: None,
            lifecycle: self.lifecycle,
        };
        if self.text_preset || self.ext.is_none() {
            m.set_payload_text(text.to_string());
        }
        m
    }
    pub fn vmm(&self) -> Option<u8> {
        self.ext.map(|(vmm, _, _)| if self.text_preset { vmm } else { vmm | 1 })
    }
}

/// number of criteria set / satisfied (for the non-trivial rule) and the decision
pub struct Decision {
    pub matches: bool,
    pub criteria: usize,
    pub satisfied: usize,
}

/// what the reference matcher looks at
#[derive(Clone, Debug)]
pub struct MView {
    pub ecu: [u8; 4],
    pub ext: Option<(u8, [u8; 4], [u8; 4])>, // vmm, apid, ctid
    pub lifecycle: u32,
    pub text: String,
}
impl MView {
    pub fn of(m: &DltMessage) -> MView {
        MView {
            ecu: *m.ecu.as_buf(),
            ext: m.extended_header.as_ref().map(|e| (e.verb_mstp_mtin, *e.apid.as_buf(), *e.ctid.as_buf())),
            lifecycle: m.lifecycle,
            text: m.payload_as_text().map(|t| t.into_owned()).unwrap_or_default(),
        }
    }
}

pub fn reference_matches(f: &AF, m: &FMsg) -> Decision {
    let v = MView {
        ecu: m.ecu_bytes(),
        ext: m.ext.map(|(_, a, c)| (m.vmm().unwrap(), *ID_UNIVERSE[a as usize % ID_UNIVERSE.len()], *ID_UNIVERSE[c as usize % ID_UNIVERSE.len()])),
        lifecycle: m.lifecycle,
        text: m.text().to_string(),
    };
    reference_matches_view(f, &v)
}

pub fn reference_matches_view(f: &AF, m: &MView) -> Decision {
    let mut crit = vec![];
    if let Some(c) = &f.ecu {
        crit.push(c.holds(&m.ecu));
    }
    if let Some(c) = &f.apid {
        crit.push(match &m.ext {
            Some((_, a, _)) => c.holds(a),
            None => false,
        });
    }
    if let Some(c) = &f.ctid {
        crit.push(match &m.ext {
            Some((_, _, ci)) => c.holds(ci),
            None => false,
        });
    }
    let vmm = m.ext.as_ref().map(|e| e.0);
    if let Some(t) = &f.mtype {
        crit.push(match vmm {
            None => false,
            Some(vmm) => match t {
                MType::Mstp(ms) => (vmm >> 1) & 7 == *ms & 7,
                MType::Vmm(v) => {
                    if v >> 4 == 0 {
                        vmm & 0x0f == *v
                    } else {
                        vmm == *v
                    }
                }
            },
        });
    }
    if let Some(l) = f.level_min {
        crit.push(match vmm {
            None => false,
            Some(vmm) => (vmm >> 1) & 7 == 0 && (vmm >> 4) >= l,
        });
    }
    if let Some(l) = f.level_max {
        crit.push(match vmm {
            None => false,
            Some(vmm) => (vmm >> 1) & 7 == 0 && (vmm >> 4) <= l,
        });
    }
    if let Some(p) = &f.payload {
        let text = m.text.as_str();
        crit.push(match p {
            PayCrit::Lit(s) => {
                if f.ignore_case {
                    text.to_lowercase().contains(&s.to_lowercase())
                } else {
                    text.contains(s.as_str())
                }
            }
            PayCrit::Re(r) => {
                let pat = if f.ignore_case { format!("(?i){}", r) } else { r.clone() };
                regex::Regex::new(&pat).map(|re| re.is_match(text)).unwrap_or(false)
            }
        });
    }
    if let Some(l) = &f.lifecycles {
        if !l.is_empty() {
            crit.push(l.contains(&m.lifecycle));
        }
    }
    let all = crit.iter().all(|c| *c);
    Decision { matches: f.enabled && (all != f.negated), criteria: crit.len(), satisfied: crit.iter().filter(|c| **c).count() }
}

// ---------------------------------------------------------------------------------------
// printers

fn id_json(o: &mut serde_json::Map<String, serde_json::Value>, name: &str, c: &Option<IdCrit>, explicit: bool) {
    if let Some(c) = c {
        match c {
            IdCrit::Lit(s) => {
                o.insert(name.to_string(), s.clone().into());
                if explicit {
                    o.insert(format!("{}IsRegex", name), false.into());
                }
            }
            IdCrit::Re(r) => {
                o.insert(name.to_string(), r.pattern().into());
                if explicit || !r.has_regex_char() {
                    o.insert(format!("{}IsRegex", name), true.into());
                }
            }
        }
    }
}

pub fn to_json(f: &AF) -> String {
    let mut o = serde_json::Map::new();
    o.insert("type".into(), f.kind.into());
    if !f.enabled || f.explicit_regex_flags {
        o.insert("enabled".into(), f.enabled.into());
    }
    if f.negated {
        o.insert("not".into(), true.into());
    }
    id_json(&mut o, "ecu", &f.ecu, f.explicit_regex_flags);
    id_json(&mut o, "apid", &f.apid, f.explicit_regex_flags);
    id_json(&mut o, "ctid", &f.ctid, f.explicit_regex_flags);
    match &f.mtype {
        Some(MType::Mstp(m)) => {
            o.insert("mstp".into(), (*m).into());
        }
        Some(MType::Vmm(v)) => {
            o.insert("verb_mstp_mtin".into(), (*v).into());
        }
        None => {}
    }
    if let Some(l) = f.level_min {
        o.insert("logLevelMin".into(), l.into());
    }
    if let Some(l) = f.level_max {
        o.insert("logLevelMax".into(), l.into());
    }
    match &f.payload {
        Some(PayCrit::Lit(s)) => {
            o.insert("payload".into(), s.clone().into());
        }
        Some(PayCrit::Re(s)) => {
            o.insert("payloadRegex".into(), s.clone().into());
        }
        None => {}
    }
    if f.ignore_case {
        o.insert("ignoreCasePayload".into(), true.into());
    }
    if let Some(l) = &f.lifecycles {
        o.insert("lifecycles".into(), l.clone().into());
    }
    serde_json::Value::Object(o).to_string()
}

fn xml_escape(s: &str) -> String {
    s.replace('&', "&amp;").replace('<', "&lt;").replace('>', "&gt;")
}

/// DLF can express: kind, enabled, literal ecu, literal/regex apid/ctid, control messages, payload literal/regex with ignore case, levels
pub fn dlf_expressible(f: &AF) -> bool {
    !f.negated
        && f.lifecycles.as_ref().map_or(true, |l| l.is_empty())
        && !matches!(f.ecu, Some(IdCrit::Re(_)))
        && match &f.mtype {
            None => true,
            Some(MType::Mstp(3)) => true,
            _ => false,
        }
        && !(f.ignore_case && f.payload.is_none())
}

pub fn to_dlf_filter(f: &AF) -> String {
    let mut s = String::from("<filter>");
    let mut tag = |n: &str, v: &str| {
        s.push_str(&format!("<{}>{}</{}>", n, xml_escape(v), n));
    };
    tag("type", &f.kind.to_string());
    tag("name", "generated");
    tag("enablefilter", if f.enabled { "1" } else { "0" });
    if let Some(IdCrit::Lit(e)) = &f.ecu {
        tag("ecuid", e);
        tag("enableecuid", "1");
    } else {
        tag("enableecuid", "0");
    }
    for (c, idn, en, re) in [(&f.apid, "applicationid", "enableapplicationid", "enableregexp_Appid"), (&f.ctid, "contextid", "enablecontextid", "enableregexp_Context")] {
        match c {
            Some(IdCrit::Lit(v)) => {
                tag(idn, v);
                tag(en, "1");
                if f.explicit_regex_flags {
                    tag(re, "0");
                }
            }
            Some(IdCrit::Re(r)) => {
                tag(idn, &r.pattern());
                tag(en, "1");
                if f.explicit_regex_flags || !r.has_regex_char() {
                    tag(re, "1");
                }
            }
            None => tag(en, "0"),
        }
    }
    tag("enablecontrolmsgs", if f.mtype.is_some() { "1" } else { "0" });
    match &f.payload {
        Some(PayCrit::Lit(p)) => {
            tag("payloadtext", p);
            tag("enablepayloadtext", "1");
            tag("enableregexp_Payload", "0");
        }
        Some(PayCrit::Re(p)) => {
            tag("payloadtext", p);
            tag("enablepayloadtext", "1");
            tag("enableregexp_Payload", "1");
        }
        None => tag("enablepayloadtext", "0"),
    }
    tag("ignoreCase_Payload", if f.ignore_case { "1" } else { "0" });
    if let Some(l) = f.level_max {
        tag("logLevelMax", &l.to_string());
        tag("enableLogLevelMax", "1");
    } else {
        tag("enableLogLevelMax", "0");
    }
    if let Some(l) = f.level_min {
        tag("logLevelMin", &l.to_string());
        tag("enableLogLevelMin", "1");
    } else {
        tag("enableLogLevelMin", "0");
    }
    s.push_str("</filter>");
    s
}
pub fn to_dlf(fs: &[AF]) -> String {
    format!(
        "<?xml version=\"1.0\" encoding=\"UTF-8\"?>\n<dltfilter>\n{}\n</dltfilter>\n",
        fs.iter().map(to_dlf_filter).collect::<Vec<_>>().join("\n")
    )
}

/// dlt-convert format: positive enabled filter with literal apid and ctid only
pub fn convert_expressible(f: &AF) -> bool {
    f.kind == 0
        && f.enabled
        && !f.negated
        && f.ecu.is_none()
        && f.mtype.is_none()
        && f.level_min.is_none()
        && f.level_max.is_none()
        && f.payload.is_none()
        && !f.ignore_case
        && f.lifecycles.as_ref().map_or(true, |l| l.is_empty())
        && matches!(&f.apid, Some(IdCrit::Lit(s)) if !s.contains('-') && !s.is_empty())
        && matches!(&f.ctid, Some(IdCrit::Lit(s)) if !s.contains('-') && !s.is_empty())
}
pub fn to_convert_format(f: &AF) -> String {
    let pad = |c: &Option<IdCrit>| -> String {
        if let Some(IdCrit::Lit(s)) = c {
            let mut t: String = s.chars().take(4).collect();
            while t.len() < 4 {
                t.push('-');
            }
            t
        } else {
            "----".into()
        }
    };
    format!("{} {} ", pad(&f.apid), pad(&f.ctid))
}

/// ECU:APID:CTID expression of `adlt convert --eac`: positive, ids literal or regex with a regex char, no ':' ',' inside
pub fn eac_expressible(f: &AF) -> bool {
    let ok = |c: &Option<IdCrit>| match c {
        None => true,
        Some(IdCrit::Lit(s)) => !s.is_empty() && !s.contains(|ch| ":,".contains(ch)),
        Some(IdCrit::Re(r)) => r.has_regex_char() && !r.pattern().contains(|ch| ":,".contains(ch)),
    };
    f.kind == 0
        && f.enabled
        && !f.negated
        && f.mtype.is_none()
        && f.level_min.is_none()
        && f.level_max.is_none()
        && f.payload.is_none()
        && !f.ignore_case
        && f.lifecycles.as_ref().map_or(true, |l| l.is_empty())
        && (f.ecu.is_some() || f.apid.is_some() || f.ctid.is_some())
        && ok(&f.ecu)
        && ok(&f.apid)
        && ok(&f.ctid)
}
pub fn to_eac(f: &AF) -> String {
    let p = |c: &Option<IdCrit>| match c {
        None => String::new(),
        Some(IdCrit::Lit(s)) => s.clone(),
        Some(IdCrit::Re(r)) => r.pattern(),
    };
    let full = format!("{}:{}:{}", p(&f.ecu), p(&f.apid), p(&f.ctid));
    // the short forms (trailing empty parts left out: "ECU", "ECU:APID", ":APID") mean the same
    if full.bytes().map(|b| b as usize).sum::<usize>() % 2 == 0 {
        let t = full.trim_end_matches(':');
        if !t.is_empty() {
            return t.to_string();
        }
    }
    full
}

// ---------------------------------------------------------------------------------------
// strategies

fn lit_id() -> impl Strategy<Value = String> {
    prop_oneof![
        6 => prop::sample::select(vec!["ECU1", "ECU2", "AB", "ABC", "A", "SYS", "ABCD"]).prop_map(|s| s.to_string()),
        1 => prop::sample::select(vec!["ABCDE", "ECU1xx", "ECU", "B", "abcd"]).prop_map(|s| s.to_string()),
    ]
}
fn atoms() -> impl Strategy<Value = Vec<Atom>> {
    prop::collection::vec(
        prop_oneof![
            5 => prop::sample::select(vec![b'E', b'C', b'U', b'1', b'2', b'A', b'B', b'S', b'Y', b'D']).prop_map(Atom::B),
            1 => Just(Atom::Any),
            1 => prop::sample::select(vec![vec![b'1', b'2'], vec![b'A', b'E'], vec![b'C', b'B', b'U']]).prop_map(Atom::OneOf),
        ],
        1..4,
    )
}
fn id_re() -> impl Strategy<Value = IdRe> {
    // (an alternative without atoms matches the empty string, i.e. every id that is there - but not an absent one)
    prop::collection::vec((any::<bool>(), prop_oneof![9 => atoms().boxed(), 1 => Just(vec![]).boxed()]), 1..3).prop_map(|alts| {
        let r = IdRe { alts };
        if r.pattern().is_empty() {
            IdRe { alts: vec![(true, vec![])] }
        } else {
            r
        }
    })
}
pub fn id_crit() -> impl Strategy<Value = IdCrit> {
    prop_oneof![3 => lit_id().prop_map(IdCrit::Lit), 2 => id_re().prop_map(IdCrit::Re)]
}
fn pay_crit() -> impl Strategy<Value = PayCrit> {
    prop_oneof![
        3 => prop::sample::select(vec!["error", "Error", "ERROR", "low", "on", "beta", "x", "42", "done 7", "=", "zzz"]).prop_map(|s| PayCrit::Lit(s.to_string())),
        // literals with regex meta characters, blanks at the ends, xml special characters: literal means literal
        2 => prop::sample::select(vec!["a.b", "(on", "c+", "[0", "b c+ (", "A.B", " a<b", "c>d ", "b&c", "c+ "]).prop_map(|s| PayCrit::Lit(s.to_string())),
        2 => prop::sample::select(vec!["^error", "error$", "err.r", "warn|boot", "[0-9]+", "^x$", "state=(on|off)", "a{2}", "(?:E|e)rror code", "\\bbeta\\b"]).prop_map(|s| PayCrit::Re(s.to_string())),
    ]
}
fn opt<T: std::fmt::Debug + Clone + 'static>(p: f64, s: impl Strategy<Value = T> + 'static) -> BoxedStrategy<Option<T>> {
    prop::option::weighted(p, s).boxed()
}

pub fn af() -> impl Strategy<Value = AF> {
    (
        (0u8..4, prop::bool::weighted(0.85), prop::bool::weighted(0.25)),
        (opt(0.4, id_crit()), opt(0.4, id_crit()), opt(0.4, id_crit())),
        opt(0.3, prop_oneof![(0u8..8).prop_map(MType::Mstp), prop_oneof![any::<u8>(), prop::sample::select(vec![0x41u8, 0x40, 0x01, 0x06, 0x26, 0x16, 0x00, 0x20])].prop_map(MType::Vmm)]),
        (opt(0.25, 0u8..7), opt(0.25, 0u8..7)),
        (opt(0.35, pay_crit()), prop::bool::weighted(0.3)),
        opt(0.25, prop::collection::vec(0u32..6, 0..3)),
        any::<bool>(),
    )
        .prop_map(|((kind, enabled, negated), (ecu, apid, ctid), mtype, (level_min, level_max), (payload, ic), lifecycles, explicit_regex_flags)| AF {
            kind,
            enabled,
            negated,
            ecu,
            apid,
            ctid,
            mtype,
            level_min,
            level_max,
            ignore_case: ic && payload.is_some(),
            payload,
            lifecycles,
            explicit_regex_flags,
        })
}

pub fn fmsg() -> impl Strategy<Value = FMsg> {
    (
        0u8..7,
        prop::option::weighted(
            0.85,
            (
                prop_oneof![3 => prop::sample::select(vec![0x41u8, 0x40, 0x01, 0x00, 0x06, 0x26, 0x16, 0x20, 0x60, 0x61, 0x11, 0x31, 0x51]), 2 => any::<u8>()],
                0u8..7,
                0u8..7,
            ),
        ),
        0u32..6,
        0u8..11,
        any::<bool>(),
        prop::option::weighted(0.05, prop::array::uniform4(0u8..0x80)),
    )
        .prop_map(|(ecu, ext, lifecycle, word, text_preset, odd_ecu)| FMsg { ecu, ext, lifecycle, word, text_preset, odd_ecu })
}
