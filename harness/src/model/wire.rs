//! M-MSG / M-STREAM: independent encoder for DLT v1 messages and byte streams with garbage.
use adlt::dlt::{DltChar4, DltExtendedHeader, DltMessage, DltStandardHeader};
use proptest::prelude::*;
use serde::{Deserialize, Serialize};

pub const HTYP_UEH: u8 = 1;
pub const HTYP_MSBF: u8 = 2;
pub const HTYP_WEID: u8 = 4;
pub const HTYP_WSID: u8 = 8;
pub const HTYP_WTMS: u8 = 16;

/// serial header messages get this fixed reception time (see parse_dlt_with_serial_header)
pub const SERIAL_RECEPTION_SECS: u64 = (2023 - 1970) * 365 * 24 * 60 * 60;

pub const STORAGE_MARKER: [u8; 4] = [b'D', b'L', b'T', 1];
pub const SERIAL_MARKER: [u8; 4] = [b'D', b'L', b'S', 1];

/// bytes = `chunk` repeated/cut to `len` (compact to store, shrinks well)
#[derive(Clone, Debug, Serialize, Deserialize, PartialEq, Eq)]
pub struct Fill {
    pub len: usize,
    pub chunk: Vec<u8>,
}
impl Fill {
    pub fn bytes(&self) -> Vec<u8> {
        if self.chunk.is_empty() {
            return vec![0xa5; self.len];
        }
        self.chunk.iter().cycle().take(self.len).copied().collect()
    }
    pub fn from_bytes(b: &[u8]) -> Fill {
        Fill {
            len: b.len(),
            chunk: b.to_vec(),
        }
    }
}

#[derive(Clone, Debug, Serialize, Deserialize, PartialEq, Eq)]
pub struct WMsg {
    pub secs: u32,
    pub micros: u32,
    pub storage_ecu: [u8; 4],
    pub htyp: u8,
    pub mcnt: u8,
    pub ecu: [u8; 4],
    pub session: u32,
    pub tmsp: u32,
    /// (verb_mstp_mtin, noar, apid, ctid) used when UEH is set
    pub ext: (u8, u8, [u8; 4], [u8; 4]),
    pub payload: Fill,
}

impl WMsg {
    pub fn hdr_size(htyp: u8) -> usize {
        4 + if htyp & HTYP_WEID != 0 { 4 } else { 0 }
            + if htyp & HTYP_WSID != 0 { 4 } else { 0 }
            + if htyp & HTYP_WTMS != 0 { 4 } else { 0 }
            + if htyp & HTYP_UEH != 0 { 10 } else { 0 }
    }
    pub fn max_payload(htyp: u8) -> usize {
        65535 - Self::hdr_size(htyp)
    }
    pub fn std_len(&self) -> u16 {
        (Self::hdr_size(self.htyp) + self.payload.len) as u16
    }
    /// offset of the payload within the encoded message
    pub fn payload_offset(&self, serial: bool) -> usize {
        (if serial { 4 } else { 16 }) + Self::hdr_size(self.htyp)
    }
    pub fn encode(&self, serial: bool, out: &mut Vec<u8>) {
        if serial {
            out.extend_from_slice(&SERIAL_MARKER);
        } else {
            out.extend_from_slice(&STORAGE_MARKER);
            out.extend_from_slice(&self.secs.to_le_bytes());
            out.extend_from_slice(&self.micros.to_le_bytes());
            out.extend_from_slice(&self.storage_ecu);
        }
        out.push(self.htyp);
        out.push(self.mcnt);
        out.extend_from_slice(&self.std_len().to_be_bytes());
        if self.htyp & HTYP_WEID != 0 {
            out.extend_from_slice(&self.ecu);
        }
        if self.htyp & HTYP_WSID != 0 {
            out.extend_from_slice(&self.session.to_be_bytes());
        }
        if self.htyp & HTYP_WTMS != 0 {
            out.extend_from_slice(&self.tmsp.to_be_bytes());
        }
        if self.htyp & HTYP_UEH != 0 {
            out.push(self.ext.0);
            out.push(self.ext.1);
            out.extend_from_slice(&self.ext.2);
            out.extend_from_slice(&self.ext.3);
        }
        out.extend_from_slice(&self.payload.bytes());
    }
    pub fn encoded_len(&self, serial: bool) -> usize {
        self.payload_offset(serial) + self.payload.len
    }
    /// what a correct reader has to deliver for this message
    pub fn expected(&self, index: u32, serial: bool) -> DltMessage {
        let reception_time_us = if serial {
            SERIAL_RECEPTION_SECS * 1_000_000
        } else {
            self.secs as u64 * 1_000_000 + self.micros as u64
        };
        let ecu = if self.htyp & HTYP_WEID != 0 {
            self.ecu
        } else if serial {
            [b'D', b'L', b'S', 0]
        } else {
            self.storage_ecu
        };
        DltMessage {
            index,
            reception_time_us,
            ecu: DltChar4::from_buf(&ecu),
            timestamp_dms: if self.htyp & HTYP_WTMS != 0 {
                self.tmsp
            } else {
                0
            },
            standard_header: DltStandardHeader {
                htyp: self.htyp,
                mcnt: self.mcnt,
                len: self.std_len(),
            },
            extended_header: if self.htyp & HTYP_UEH != 0 {
                Some(DltExtendedHeader {
                    verb_mstp_mtin: self.ext.0,
                    noar: self.ext.1,
                    apid: DltChar4::from_buf(&self.ext.2),
                    ctid: DltChar4::from_buf(&self.ext.3),
                })
            } else {
                None
            },
            payload: self.payload.bytes(),
            payload_text: None,
            lifecycle: 0,
        }
    }
}

#[derive(Clone, Debug, Serialize, Deserialize, PartialEq, Eq)]
pub enum Elem {
    G(Fill),
    M(WMsg),
}

#[derive(Clone, Debug, Serialize, Deserialize, PartialEq, Eq)]
pub struct Stream {
    pub serial: bool,
    pub elems: Vec<Elem>,
}

pub struct Encoded {
    pub bytes: Vec<u8>,
    /// (offset, model) of each message
    pub msgs: Vec<(usize, WMsg)>,
    pub garbage_total: usize,
    pub garbage_trailing: usize,
    pub garbage_runs: usize,
    pub repairs: usize,
}

fn find_illegal_marker(bytes: &[u8], legal_starts: &[usize]) -> Option<usize> {
    if bytes.len() < 4 {
        return None;
    }
    let mut li = 0;
    for p in 0..bytes.len() - 3 {
        if bytes[p] == b'D'
            && bytes[p + 1] == b'L'
            && bytes[p + 3] == 1
            && (bytes[p + 2] == b'T' || bytes[p + 2] == b'S')
        {
            while li < legal_starts.len() && legal_starts[li] < p {
                li += 1;
            }
            if li < legal_starts.len() && legal_starts[li] == p {
                continue;
            }
            return Some(p);
        }
    }
    None
}

impl Stream {
    pub fn encode_raw(&self) -> Encoded {
        let mut bytes = vec![];
        let mut msgs = vec![];
        let mut garbage_total = 0;
        let mut garbage_trailing = 0;
        let mut garbage_runs = 0;
        let mut last_was_garbage = false;
        for e in &self.elems {
            match e {
                Elem::G(f) => {
                    bytes.extend_from_slice(&f.bytes());
                    garbage_total += f.len;
                    garbage_trailing += f.len;
                    if f.len > 0 && !last_was_garbage {
                        garbage_runs += 1;
                        last_was_garbage = true;
                    }
                }
                Elem::M(m) => {
                    msgs.push((bytes.len(), m.clone()));
                    m.encode(self.serial, &mut bytes);
                    garbage_trailing = 0;
                    last_was_garbage = false;
                }
            }
        }
        Encoded {
            bytes,
            msgs,
            garbage_total,
            garbage_trailing,
            garbage_runs,
            repairs: 0,
        }
    }

    /// encode and make the stream marker clean (both markers only at the own message starts).
    /// Returns None if a marker cannot be repaired (only header fields involved) -> case discarded (counted).
    pub fn encode_clean(&self) -> Option<Encoded> {
        let mut s = self.clone();
        let mut repairs = 0;
        loop {
            let enc = s.encode_raw();
            let legal: Vec<usize> = enc.msgs.iter().map(|x| x.0).collect();
            // a message start marker of the *other* framing never occurs as own starts are the only ones
            match find_illegal_marker(&enc.bytes, &legal) {
                None => {
                    let mut enc = enc;
                    enc.repairs = repairs;
                    return Some(enc);
                }
                Some(p) => {
                    repairs += 1;
                    if repairs > 200 {
                        return None;
                    }
                    // find a mutable byte within p..p+4
                    let mut off = 0usize;
                    let mut done = false;
                    'outer: for e in s.elems.iter_mut() {
                        let (len, pay_off) = match e {
                            Elem::G(f) => (f.len, 0),
                            Elem::M(m) => (m.encoded_len(s.serial), m.payload_offset(s.serial)),
                        };
                        for q in p..p + 4 {
                            if q >= off && q < off + len {
                                let rel = q - off;
                                match e {
                                    Elem::G(f) => {
                                        let mut b = f.bytes();
                                        b[rel] ^= 0x80;
                                        *f = Fill::from_bytes(&b);
                                        done = true;
                                        break 'outer;
                                    }
                                    Elem::M(m) => {
                                        if rel >= pay_off {
                                            let mut b = m.payload.bytes();
                                            b[rel - pay_off] ^= 0x80;
                                            m.payload = Fill::from_bytes(&b);
                                            done = true;
                                            break 'outer;
                                        }
                                    }
                                }
                            }
                        }
                        off += len;
                    }
                    if !done {
                        return None;
                    }
                }
            }
        }
    }
}

// ---------------------------------------------------------------------------------------
// strategies

pub fn id4() -> impl Strategy<Value = [u8; 4]> {
    prop_oneof![
        4 => prop::sample::select(vec![*b"ECU1", *b"ECU2", *b"APP1", *b"CTX1", *b"AB\0\0", *b"A\0\0\0", *b"\0\0\0\0", *b"SYS\0", *b"JOUR"]),
        2 => prop::array::uniform4(0x20u8..0x7f),
        2 => prop::array::uniform4(any::<u8>()),
    ]
}

pub fn fill(max: usize) -> impl Strategy<Value = Fill> {
    (
        prop::collection::vec(any::<u8>(), 0..32),
        prop_oneof![
            6 => 0usize..=std::cmp::min(max, 40),
            2 => 0usize..=std::cmp::min(max, 300),
            1 => 0usize..=max,
        ],
    )
        .prop_map(|(chunk, len)| Fill { len, chunk })
}

/// payload sizes 0..max for the chosen flags
pub fn payload_len(htyp: u8, allow_huge: bool) -> BoxedStrategy<usize> {
    let max = WMsg::max_payload(htyp);
    if allow_huge {
        prop_oneof![
            5 => 0usize..5,
            8 => 0usize..64,
            4 => 0usize..300,
            2 => 240usize..270,
            1 => 60000usize..=max,
            1 => (max - 8)..=max,
            1 => 0usize..=max,
        ]
        .boxed()
    } else {
        prop_oneof![
            5 => 0usize..5,
            8 => 0usize..64,
            4 => 0usize..300,
            2 => 240usize..270,
        ]
        .boxed()
    }
}

pub fn htyp() -> impl Strategy<Value = u8> {
    (
        0u8..32,
        prop_oneof![8 => Just(1u8), 1 => 0u8..8],
    )
        .prop_map(|(flags, vers)| flags | (vers << 5))
}

pub fn wmsg(allow_huge: bool) -> impl Strategy<Value = WMsg> {
    htyp()
        .prop_flat_map(move |h| {
            (
                Just(h),
                payload_len(h, allow_huge),
                prop::collection::vec(any::<u8>(), 0..24),
                (
                    prop_oneof![Just(0u32), 1u32..2_000_000_000, any::<u32>()],
                    0u32..1_000_000,
                    id4(),
                    any::<u8>(),
                    id4(),
                    any::<u32>(),
                    prop_oneof![Just(0u32), 1u32..10_000_000, any::<u32>()],
                    (any::<u8>(), any::<u8>(), id4(), id4()),
                ),
            )
        })
        .prop_map(
            |(htyp, len, chunk, (secs, micros, storage_ecu, mcnt, ecu, session, tmsp, ext))| WMsg {
                secs,
                micros,
                storage_ecu,
                htyp,
                mcnt,
                ecu,
                session,
                tmsp,
                ext,
                payload: Fill { len, chunk },
            },
        )
}

/// garbage: arbitrary bytes, optionally ending (or consisting) of partial markers
pub fn garbage(max: usize) -> impl Strategy<Value = Fill> {
    (
        prop_oneof![
            3 => Just(0usize),
            4 => 1usize..20,
            3 => 20usize..200,
            1 => 200usize..=std::cmp::max(201, max),
        ],
        prop::collection::vec(any::<u8>(), 1..24),
        prop::sample::select(vec![
            &b""[..],
            &b""[..],
            &b"D"[..],
            &b"DL"[..],
            &b"DLT"[..],
            &b"DLS"[..],
            &b"LT\x01"[..],
            &b"\x01"[..],
        ]),
    )
        .prop_map(|(len, chunk, tail)| {
            let mut b = Fill { len, chunk }.bytes();
            if !tail.is_empty() && b.len() >= tail.len() {
                let n = b.len();
                b[n - tail.len()..].copy_from_slice(tail);
            }
            Fill::from_bytes(&b)
        })
}

pub fn stream(max_msgs: usize, allow_huge: bool, max_garbage: usize) -> impl Strategy<Value = Stream> {
    (
        any::<bool>(),
        prop::collection::vec(
            prop_oneof![
                2 => garbage(max_garbage).prop_map(Elem::G),
                3 => wmsg(allow_huge).prop_map(Elem::M),
            ],
            0..(max_msgs * 2),
        ),
    )
        .prop_map(|(serial, elems)| Stream { serial, elems })
}
