//! M-TRACE-CLEAN / M-TRACE-MESSY generators and a runner for the lifecycle detector
use adlt::dlt::*;
use adlt::lifecycle::*;
use proptest::prelude::*;
use serde::{Deserialize, Serialize};
use std::sync::atomic::{AtomicUsize, Ordering};
use std::sync::Arc;

pub const S: u64 = 1_000_000;
pub const BASE: u64 = 1_600_000_000 * S;

pub const APIDS: [&[u8; 4]; 4] = [b"APA\0", b"APB\0", b"SYS\0", b"AB\0\0"];
pub const CTIDS: [&[u8; 4]; 4] = [b"CTX\0", b"CTY\0", b"JOUR", b"C\0\0\0"];
pub const WORDS: [&str; 8] = ["alpha", "Beta", "GAMMA", "delta error", "Error 42", "warn: low", "x", "Alpha beta"];

pub fn ecu_name(e: u8) -> DltChar4 {
    DltChar4::from_buf(&[b'E', b'C', b'U', b'A' + e])
}

/// verbose payload with a single utf8 string argument (little endian)
pub fn string_payload(s: &str) -> Vec<u8> {
    let mut p = vec![];
    p.extend_from_slice(&(0x8200u32).to_le_bytes());
    p.extend_from_slice(&((s.len() + 1) as u16).to_le_bytes());
    p.extend_from_slice(s.as_bytes());
    p.push(0);
    p
}

// ---------------------------------------------------------------------------------------
// clean traces

#[derive(Clone, Debug, Serialize, Deserialize, PartialEq, Eq)]
pub struct CMsg {
    pub ts_dms: u32,
    pub apid: u8,
    pub ctid: u8,
    pub word: u8,
    pub level: u8, // 1..6
}
#[derive(Clone, Debug, Serialize, Deserialize, PartialEq, Eq)]
pub struct Boot {
    pub off_us: u64,
    pub delay_us: u64,
    pub msgs: Vec<CMsg>,
}
#[derive(Clone, Debug, Serialize, Deserialize, PartialEq, Eq)]
pub struct EcuTrace {
    pub ecu: u8,
    pub start_off_us: u64,
    pub boots: Vec<Boot>,
}

/// ground truth of one generated message
#[derive(Clone, Debug)]
pub struct Truth {
    pub ecu: u8,
    pub boot: usize,
}
#[derive(Clone, Debug)]
pub struct BootTruth {
    pub ecu: u8,
    pub start: u64,
    pub max_ts_us: u64,
    pub n: u32,
}

impl EcuTrace {
    /// messages in stream order with ground truth; base = reception of the (virtual) previous boot's last message
    pub fn build(&self) -> (Vec<(DltMessage, Truth)>, Vec<BootTruth>) {
        let mut last_rt = BASE + self.start_off_us;
        let mut v = vec![];
        let mut boots = vec![];
        for (bi, b) in self.boots.iter().enumerate() {
            let bt = last_rt + b.off_us;
            let mut max_ts = 0u64;
            for m in &b.msgs {
                let rt = bt + m.ts_dms as u64 * 100 + b.delay_us;
                if rt > last_rt {
                    last_rt = rt;
                }
                max_ts = max_ts.max(m.ts_dms as u64 * 100);
                let payload = string_payload(WORDS[m.word as usize % WORDS.len()]);
                v.push((
                    DltMessage {
                        index: 0,
                        reception_time_us: rt,
                        ecu: ecu_name(self.ecu),
                        timestamp_dms: m.ts_dms,
                        standard_header: DltStandardHeader { htyp: 0x31, mcnt: (v.len() % 256) as u8, len: 0 },
                        extended_header: Some(DltExtendedHeader {
                            verb_mstp_mtin: 0x01 | ((m.level.clamp(1, 6)) << 4),
                            noar: 1,
                            apid: DltChar4::from_buf(APIDS[m.apid as usize % 4]),
                            ctid: DltChar4::from_buf(CTIDS[m.ctid as usize % 4]),
                        }),
                        payload,
                        payload_text: None,
                        lifecycle: 0,
                    },
                    Truth { ecu: self.ecu, boot: bi },
                ));
            }
            boots.push(BootTruth { ecu: self.ecu, start: bt + b.delay_us, max_ts_us: max_ts, n: b.msgs.len() as u32 });
        }
        (v, boots)
    }
}

pub fn cmsg(max_ts_dms: u32) -> impl Strategy<Value = CMsg> {
    (
        prop_oneof![1 => Just(0u32), 6 => 0u32..max_ts_dms, 2 => 0u32..1000],
        0u8..4,
        0u8..4,
        0u8..8,
        1u8..7,
    )
        .prop_map(|(ts_dms, apid, ctid, word, level)| CMsg { ts_dms, apid, ctid, word, level })
}

/// `sorted`: timestamps within the boot ascending (as a real ECU would send) or in any order
pub fn boot(max_msgs: usize, sorted_only: bool) -> impl Strategy<Value = Boot> {
    (
        prop_oneof![2 => Just(1_000u64), 4 => 1_000u64..30 * S, 2 => 30 * S..400 * S],
        prop_oneof![3 => Just(0u64), 4 => 0u64..5 * S, 2 => 0u64..120 * S],
        prop_oneof![8 => Just(600_000u32), 4 => Just(100_000u32), 2 => Just(40_000_000u32), 1 => Just(430_000_000u32), 1 => Just(u32::MAX)],
        any::<bool>(),
    )
        .prop_flat_map(move |(off_us, delay_us, max_ts, sorted)| {
            (
                Just(off_us),
                Just(delay_us),
                prop::collection::vec(cmsg(max_ts), 1..=max_msgs),
                Just(sorted || sorted_only),
            )
        })
        .prop_map(|(off_us, delay_us, mut msgs, sorted)| {
            if sorted {
                msgs.sort_by_key(|m| m.ts_dms);
            }
            Boot { off_us, delay_us, msgs }
        })
}

pub fn ecu_trace(ecu: u8, max_boots: usize, max_msgs: usize, sorted_only: bool) -> impl Strategy<Value = EcuTrace> {
    (prop::collection::vec(boot(max_msgs, sorted_only), 1..=max_boots), 0u64..100 * S)
        .prop_map(move |(boots, start_off_us)| EcuTrace { ecu, start_off_us, boots })
}

/// interleave per-ECU sequences by a choice sequence (monotone index mapping)
pub fn interleave<T: Clone>(seqs: &[Vec<T>], choices: &[u16]) -> Vec<T> {
    let mut pos = vec![0usize; seqs.len()];
    let total: usize = seqs.iter().map(|s| s.len()).sum();
    let mut out = Vec::with_capacity(total);
    let mut ci = 0;
    while out.len() < total {
        let avail: Vec<usize> = (0..seqs.len()).filter(|i| pos[*i] < seqs[*i].len()).collect();
        let c = if choices.is_empty() { 0 } else { choices[ci % choices.len()] };
        ci += 1;
        let pick = avail[(c as usize * avail.len()) >> 16];
        out.push(seqs[pick][pos[pick]].clone());
        pos[pick] += 1;
    }
    out
}

// ---------------------------------------------------------------------------------------
// messy traces

#[derive(Clone, Debug, Serialize, Deserialize, PartialEq, Eq)]
pub struct Ev {
    pub ecu: u8,
    pub drt: i64,
    pub tsmode: u8,
    pub tsval: u32,
    pub kind: u8,
}

pub fn ev(n_ecus: u8) -> impl Strategy<Value = Ev> {
    (
        0u8..n_ecus,
        prop_oneof![6 => 0i64..2_000_000, 2 => 0i64..30_000_000, 1 => 0i64..200_000_000, 1 => -5_000_000i64..0],
        // 8: persistent suspend shift, 9: garbage timestamp near u32::MAX, 10: host clock set back to 1970
        prop_oneof![32 => 0u8..8, 3 => Just(8u8), 2 => Just(9u8), 1 => Just(10u8)],
        prop_oneof![Just(0u32), 0u32..50_000, 0u32..2_000_000, 0u32..20_000_000],
        prop_oneof![24 => Just(0u8), 2 => Just(1u8), 2 => Just(2u8), 1 => Just(3u8), 1 => Just(4u8)],
    )
        .prop_map(|(ecu, drt, tsmode, tsval, kind)| Ev { ecu, drt, tsmode, tsval, kind })
}

pub fn build_messy(evs: &[Ev]) -> Vec<DltMessage> {
    let mut clock = BASE;
    let mut ecu_ts = [0u64; 8];
    let mut last_clock = [BASE; 8];
    let mut out = vec![];
    for (i, e) in evs.iter().enumerate() {
        clock = (clock as i64 + e.drt).max(1) as u64;
        if e.tsmode == 10 {
            // the recording host's clock jumps back to (shortly after) 1970: timestamps may exceed the reception time
            clock = 1 + e.tsval as u64 * 50;
        }
        let ei = (e.ecu % 8) as usize;
        let adv = clock.saturating_sub(last_clock[ei]);
        last_clock[ei] = clock;
        ecu_ts[ei] += adv;
        let ts_dms: u32 = match e.tsmode {
            0..=3 => (ecu_ts[ei] / 100) as u32,
            4 => {
                // reboot
                ecu_ts[ei] = e.tsval as u64 * 100 % (5 * S);
                (ecu_ts[ei] / 100) as u32
            }
            5 => 0,
            6 => e.tsval,
            8 => {
                // the ECU was suspended: its clock stays behind from now on (>= 10 s)
                ecu_ts[ei] = ecu_ts[ei].saturating_sub(10 * S + (e.tsval as u64 * 100) % (120 * S));
                (ecu_ts[ei] / 100) as u32
            }
            9 => u32::MAX - e.tsval % 1000,
            10 => (ecu_ts[ei] / 100) as u32,
            _ => ((ecu_ts[ei] / 100) as u32).saturating_sub(e.tsval % 700_000), // buffered older msg (<= 70s)
        };
        let mut m = DltMessage {
            index: i as u32,
            reception_time_us: clock,
            ecu: ecu_name(e.ecu),
            timestamp_dms: ts_dms,
            standard_header: DltStandardHeader { htyp: 0x20 | 0x10, mcnt: i as u8, len: 0 },
            extended_header: None,
            payload: vec![i as u8, (i >> 8) as u8],
            payload_text: None,
            lifecycle: 0,
        };
        let ctrl = |mtin: u8, verbose: bool| DltExtendedHeader {
            verb_mstp_mtin: (3 << 1) | (mtin << 4) | (verbose as u8),
            noar: 0,
            apid: DltChar4::from_buf(b"APID"),
            ctid: DltChar4::from_buf(b"CTID"),
        };
        match e.kind {
            1 => {
                // control request
                m.extended_header = Some(ctrl(1, false));
                m.standard_header.htyp |= 1;
            }
            2 => {
                // no timestamp
                m.standard_header.htyp &= !0x10;
                m.timestamp_dms = 0;
            }
            3 => {
                // control response get sw version
                m.extended_header = Some(ctrl(2, false));
                m.standard_header.htyp |= 1;
                let mut p = 19u32.to_le_bytes().to_vec();
                p.push(0);
                p.extend_from_slice(&5u32.to_le_bytes());
                p.extend_from_slice(b"SW1.0");
                m.payload = p;
            }
            4 => {
                // control response, odd: verbose or short body
                m.extended_header = Some(ctrl(2, e.tsval % 2 == 0));
                m.standard_header.htyp |= 1;
                m.payload = vec![0x13; (e.tsval % 7) as usize];
            }
            _ => {
                m.extended_header = Some(DltExtendedHeader {
                    verb_mstp_mtin: 0x41,
                    noar: 0,
                    apid: DltChar4::from_buf(APIDS[i % 3]),
                    ctid: DltChar4::from_buf(CTIDS[i % 2]),
                });
                m.standard_header.htyp |= 1;
            }
        }
        out.push(m);
    }
    out
}

// ---------------------------------------------------------------------------------------
// detector runner

#[derive(Clone, Debug)]
pub struct LcRow {
    pub id: u32,
    pub ecu: DltChar4,
    pub nr_msgs: u32,
    pub start: u64,
    pub end: u64,
    pub is_resume: bool,
    pub resume_origin: Option<u32>,
    /// key present in the table but without a value
    pub empty_bag: bool,
}

#[derive(Default)]
pub struct DetOut {
    pub out: Vec<DltMessage>,
    /// lifecycle visible (with the msg's ecu) through a read handle inside the outflow closure
    pub vis_same: Vec<bool>,
    /// ... and through a cloned read handle owned by another thread (hand shake inside the closure)
    pub vis_cross: Vec<bool>,
    /// how many messages had been fed when message i was delivered (only with `paced`)
    pub fed_at_delivery: Vec<usize>,
    pub table: Vec<LcRow>,
    pub listing: Option<Vec<u32>>,
    pub listing_panic: bool,
    pub ids_allocated: u32,
    /// id of the first lifecycle allocated by this run (ids are consecutive within a run)
    pub first_id: u32,
}

pub struct DetOpts {
    pub cross_thread: bool,
    pub paced: bool,
    pub want_listing: bool,
}

pub fn new_lc_map() -> (
    evmap::ReadHandle<LifecycleId, LifecycleItem, (), nohash_hasher::BuildNoHashHasher<LifecycleId>>,
    evmap::WriteHandle<LifecycleId, LifecycleItem, (), nohash_hasher::BuildNoHashHasher<LifecycleId>>,
) {
    evmap::Options::default()
        .with_hasher(nohash_hasher::BuildNoHashHasher::<LifecycleId>::default())
        .construct::<LifecycleId, LifecycleItem>()
}

fn probe_next_id() -> u32 {
    let mut m = DltMessage::get_testmsg_with_payload(false, 0, &[]);
    Lifecycle::new(&mut m).id()
}

pub type LcW = evmap::WriteHandle<LifecycleId, LifecycleItem, (), nohash_hasher::BuildNoHashHasher<LifecycleId>>;
pub type LcR = evmap::ReadHandle<LifecycleId, LifecycleItem, (), nohash_hasher::BuildNoHashHasher<LifecycleId>>;

pub fn read_table(lcs_r: &LcR, want_listing: bool, res: &mut DetOut) {
    if let Some(r) = lcs_r.read() {
        for (_id, b) in r.iter() {
            if let Some(lc) = b.get_one() {
                res.table.push(LcRow {
                    id: lc.id(),
                    ecu: lc.ecu,
                    nr_msgs: lc.nr_msgs,
                    start: lc.start_time,
                    end: if lc.nr_msgs == 0 { 0 } else { lc.end_time() },
                    is_resume: lc.is_resume(),
                    resume_origin: lc.resume_origin_id(),
                    empty_bag: false,
                });
            } else {
                res.table.push(LcRow {
                    id: *_id,
                    ecu: DltChar4::from_buf(b"\0\0\0\0"),
                    nr_msgs: 0,
                    start: 0,
                    end: 0,
                    is_resume: false,
                    resume_origin: None,
                    empty_bag: true,
                });
            }
        }
        if want_listing {
            match std::panic::catch_unwind(std::panic::AssertUnwindSafe(|| {
                get_sorted_lifecycles_as_vec(&r).iter().map(|l| l.id()).collect::<Vec<u32>>()
            })) {
                Ok(l) => res.listing = Some(l),
                Err(_) => res.listing_panic = true,
            }
        }
    }
    res.table.sort_by_key(|r| r.id);
}

/// run the detector on `msgs`. `lcs` = an existing (pre-populated) map or None. Returns the output and the (still alive) handles.
pub fn run_detector(msgs: Vec<DltMessage>, opts: &DetOpts, lcs: Option<(LcR, LcW)>) -> (DetOut, LcR, LcW) {
    let (lcs_r, lcs_w) = lcs.unwrap_or_else(new_lc_map);
    let id_before = probe_next_id();
    let mut res = DetOut::default();
    let out = std::cell::RefCell::new(vec![]);
    let vis_same = std::cell::RefCell::new(vec![]);
    let vis_cross = std::cell::RefCell::new(vec![]);
    let fed_at = std::cell::RefCell::new(vec![]);
    let fed = Arc::new(AtomicUsize::new(0));

    // cross thread reader
    let (q_tx, q_rx) = std::sync::mpsc::channel::<(u32, DltChar4)>();
    let (a_tx, a_rx) = std::sync::mpsc::channel::<bool>();
    let reader = if opts.cross_thread {
        let r2 = lcs_r.clone();
        Some(std::thread::spawn(move || {
            for (id, ecu) in q_rx {
                let ok = match r2.get_one(&id) {
                    Some(l) => l.ecu == ecu,
                    None => false,
                };
                if a_tx.send(ok).is_err() {
                    break;
                }
            }
        }))
    } else {
        drop(q_rx);
        drop(a_tx);
        None
    };

    let (tx, rx): (std::sync::mpsc::SyncSender<DltMessage>, _) = if opts.paced {
        std::sync::mpsc::sync_channel(0)
    } else {
        std::sync::mpsc::sync_channel(msgs.len() + 1)
    };
    let producer = if opts.paced {
        let fed2 = fed.clone();
        Some(std::thread::spawn(move || {
            for m in msgs {
                if tx.send(m).is_err() {
                    break;
                }
                fed2.fetch_add(1, Ordering::SeqCst);
            }
        }))
    } else {
        for m in msgs {
            tx.send(m).unwrap();
        }
        drop(tx);
        None
    };
    let lcs_w = parse_lifecycles_buffered_from_stream(lcs_w, rx, &|m: DltMessage| {
        let ok = match lcs_r.get_one(&m.lifecycle) {
            Some(l) => l.ecu == m.ecu,
            None => false,
        };
        vis_same.borrow_mut().push(ok);
        if opts.cross_thread {
            let ok2 = q_tx.send((m.lifecycle, m.ecu)).is_ok() && a_rx.recv().unwrap_or(false);
            vis_cross.borrow_mut().push(ok2);
        }
        if opts.paced {
            fed_at.borrow_mut().push(fed.load(Ordering::SeqCst));
        }
        out.borrow_mut().push(m);
        Ok(())
    });
    drop(q_tx);
    if let Some(p) = producer {
        let _ = p.join();
    }
    if let Some(r) = reader {
        let _ = r.join();
    }
    let id_after = probe_next_id();
    res.ids_allocated = id_after.wrapping_sub(id_before).wrapping_sub(1);
    res.first_id = id_before.wrapping_add(1);
    res.out = out.into_inner();
    res.vis_same = vis_same.into_inner();
    res.vis_cross = vis_cross.into_inner();
    res.fed_at_delivery = fed_at.into_inner();
    read_table(&lcs_r, opts.want_listing, &mut res);
    (res, lcs_r, lcs_w)
}
