pub mod wire;
