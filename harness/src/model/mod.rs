pub mod args;
pub mod trace;
pub mod wire;
