pub mod args;
pub mod wire;
