pub mod args;
pub mod filter;
pub mod remote;
pub mod trace;
pub mod wire;
