pub mod args;
pub mod filter;
pub mod trace;
pub mod wire;
