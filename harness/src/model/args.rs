//! M-ARGS: typed values of verbose DLT payloads with an independent encoder and canonical text
use proptest::prelude::*;
use serde::{Deserialize, Serialize};

pub const TI_BOOL: u32 = 0x10;
pub const TI_SINT: u32 = 0x20;
pub const TI_UINT: u32 = 0x40;
pub const TI_FLOA: u32 = 0x80;
pub const TI_STRG: u32 = 0x200;
pub const TI_RAWD: u32 = 0x400;
pub const SCOD_ASCII: u32 = 0;
pub const SCOD_UTF8: u32 = 0x8000;

#[derive(Clone, Debug, Serialize, Deserialize, PartialEq)]
pub enum Val {
    Bool(bool),
    U8(u8),
    U16(u16),
    U32(u32),
    U64(u64),
    I8(i8),
    I16(i16),
    I32(i32),
    I64(i64),
    F32(u32), // bits
    F64(u64), // bits
    /// raw content of the string argument (incl. a trailing NUL if any), may be invalid utf-8
    Utf8(Vec<u8>),
    Ascii(Vec<u8>),
    Raw(Vec<u8>),
}

impl Val {
    pub fn kind(&self) -> u8 {
        match self {
            Val::Bool(_) => 0,
            Val::U8(_) | Val::U16(_) | Val::U32(_) | Val::U64(_) => 1,
            Val::I8(_) | Val::I16(_) | Val::I32(_) | Val::I64(_) => 2,
            Val::F32(_) | Val::F64(_) => 3,
            Val::Utf8(_) => 4,
            Val::Ascii(_) => 5,
            Val::Raw(_) => 6,
        }
    }
    pub fn type_info(&self) -> u32 {
        match self {
            Val::Bool(_) => TI_BOOL | 1,
            Val::U8(_) => TI_UINT | 1,
            Val::U16(_) => TI_UINT | 2,
            Val::U32(_) => TI_UINT | 3,
            Val::U64(_) => TI_UINT | 4,
            Val::I8(_) => TI_SINT | 1,
            Val::I16(_) => TI_SINT | 2,
            Val::I32(_) => TI_SINT | 3,
            Val::I64(_) => TI_SINT | 4,
            Val::F32(_) => TI_FLOA | 3,
            Val::F64(_) => TI_FLOA | 4,
            Val::Utf8(_) => TI_STRG | SCOD_UTF8,
            Val::Ascii(_) => TI_STRG | SCOD_ASCII,
            Val::Raw(_) => TI_RAWD,
        }
    }
    /// the raw value bytes as they appear in the payload
    pub fn raw(&self, be: bool) -> Vec<u8> {
        macro_rules! e {
            ($v:expr) => {
                if be {
                    $v.to_be_bytes().to_vec()
                } else {
                    $v.to_le_bytes().to_vec()
                }
            };
        }
        match self {
            Val::Bool(b) => vec![*b as u8],
            Val::U8(v) => vec![*v],
            Val::I8(v) => vec![*v as u8],
            Val::U16(v) => e!(v),
            Val::U32(v) => e!(v),
            Val::U64(v) => e!(v),
            Val::I16(v) => e!(v),
            Val::I32(v) => e!(v),
            Val::I64(v) => e!(v),
            Val::F32(v) => e!(v),
            Val::F64(v) => e!(v),
            Val::Utf8(b) | Val::Ascii(b) | Val::Raw(b) => b.clone(),
        }
    }
    pub fn has_len(&self) -> bool {
        matches!(self, Val::Utf8(_) | Val::Ascii(_) | Val::Raw(_))
    }
    pub fn encode(&self, be: bool, out: &mut Vec<u8>) {
        let ti = self.type_info();
        out.extend_from_slice(&if be { ti.to_be_bytes() } else { ti.to_le_bytes() });
        let raw = self.raw(be);
        if self.has_len() {
            let l = raw.len() as u16;
            out.extend_from_slice(&if be { l.to_be_bytes() } else { l.to_le_bytes() });
        }
        out.extend_from_slice(&raw);
    }
    pub fn encoded_len(&self) -> usize {
        4 + if self.has_len() { 2 } else { 0 } + self.raw(false).len()
    }
}

pub fn encode_args(args: &[Val], be: bool) -> Vec<u8> {
    let mut out = vec![];
    for a in args {
        a.encode(be, &mut out);
    }
    out
}

fn strip_one_nul(b: &[u8]) -> &[u8] {
    if let Some((&0, rest)) = b.split_last() {
        rest
    } else {
        b
    }
}
fn ws(s: &str) -> String {
    s.chars()
        .map(|c| if c == '\r' || c == '\n' || c == '\t' { ' ' } else { c })
        .collect()
}

/// canonical text piece of one value; None for floats (checked by parsing the token back)
pub fn canonical(v: &Val) -> Option<String> {
    Some(match v {
        Val::Bool(b) => (if *b { "true" } else { "false" }).to_string(),
        Val::U8(x) => x.to_string(),
        Val::U16(x) => x.to_string(),
        Val::U32(x) => x.to_string(),
        Val::U64(x) => x.to_string(),
        Val::I8(x) => x.to_string(),
        Val::I16(x) => x.to_string(),
        Val::I32(x) => x.to_string(),
        Val::I64(x) => x.to_string(),
        Val::F32(_) | Val::F64(_) => return None,
        Val::Raw(b) => b.iter().map(|c| format!("{:02x}", c)).collect::<Vec<_>>().join(" "),
        Val::Utf8(b) => ws(&String::from_utf8_lossy(strip_one_nul(b))),
        Val::Ascii(b) => ws(&encoding_rs::WINDOWS_1252.decode_without_bom_handling(strip_one_nul(b)).0),
    })
}

/// compare `text` with the canonical rendering of `vals` (space separated)
pub fn check_text(vals: &[Val], text: &str) -> Result<(), String> {
    let mut rest = text;
    for (i, v) in vals.iter().enumerate() {
        if i > 0 {
            match rest.strip_prefix(' ') {
                Some(r) => rest = r,
                None => return Err(format!("arg #{}: missing separator, rest={:?}", i, head(rest))),
            }
        }
        match canonical(v) {
            Some(piece) => match rest.strip_prefix(piece.as_str()) {
                Some(r) => rest = r,
                None => return Err(format!("arg #{} ({:?}): expected text {:?} got {:?}", i, kind_name(v), head(&piece), head(rest))),
            },
            None => {
                let end = rest.find(' ').unwrap_or(rest.len());
                let tok = &rest[..end];
                let ok = match v {
                    Val::F32(bits) => {
                        let f = f32::from_bits(*bits);
                        match tok.parse::<f32>() {
                            Ok(p) => (p.is_nan() && f.is_nan()) || p.to_bits() == f.to_bits(),
                            Err(_) => false,
                        }
                    }
                    Val::F64(bits) => {
                        let f = f64::from_bits(*bits);
                        match tok.parse::<f64>() {
                            Ok(p) => (p.is_nan() && f.is_nan()) || p.to_bits() == f.to_bits(),
                            Err(_) => false,
                        }
                    }
                    _ => unreachable!(),
                };
                if !ok {
                    return Err(format!("arg #{}: float token {:?} does not parse back to {:?}", i, tok, v));
                }
                rest = &rest[end..];
            }
        }
    }
    if !rest.is_empty() {
        return Err(format!("trailing text {:?}", head(rest)));
    }
    Ok(())
}
fn head(s: &str) -> String {
    s.chars().take(60).collect()
}
pub fn kind_name(v: &Val) -> &'static str {
    ["bool", "uint", "sint", "float", "utf8", "ascii", "raw"][v.kind() as usize]
}

// ---------------------------------------------------------------------------------------
fn bytes_interesting(max: usize) -> impl Strategy<Value = Vec<u8>> {
    prop_oneof![
        2 => Just(vec![]),
        6 => prop::collection::vec(prop_oneof![4 => 0x20u8..0x7f, 1 => prop::sample::select(vec![0u8, b'\r', b'\n', b'\t', 0x80, 0x9f, 0xe4, 0xff, 0xc3, 0xa4]), 1 => any::<u8>()], 0..24),
        1 => prop::collection::vec(any::<u8>(), 0..=std::cmp::min(max, 300)),
    ]
}
fn strbytes(max: usize) -> impl Strategy<Value = Vec<u8>> {
    (bytes_interesting(max), 0u8..4).prop_map(|(mut b, term)| {
        match term {
            0 => b.push(0),              // NUL terminated
            1 => { b.push(0); b.push(0); } // two NULs: only one is removed
            _ => {}                        // not terminated
        }
        b
    })
}

pub fn val() -> impl Strategy<Value = Val> {
    prop_oneof![
        1 => any::<bool>().prop_map(Val::Bool),
        1 => prop_oneof![Just(0u8), Just(u8::MAX), any::<u8>()].prop_map(Val::U8),
        1 => prop_oneof![Just(0u16), Just(u16::MAX), any::<u16>()].prop_map(Val::U16),
        1 => prop_oneof![Just(0u32), Just(u32::MAX), any::<u32>()].prop_map(Val::U32),
        1 => prop_oneof![Just(0u64), Just(u64::MAX), any::<u64>()].prop_map(Val::U64),
        1 => prop_oneof![Just(i8::MIN), Just(i8::MAX), any::<i8>()].prop_map(Val::I8),
        1 => prop_oneof![Just(i16::MIN), Just(i16::MAX), Just(-1i16), any::<i16>()].prop_map(Val::I16),
        1 => prop_oneof![Just(i32::MIN), Just(i32::MAX), Just(-1i32), any::<i32>()].prop_map(Val::I32),
        1 => prop_oneof![Just(i64::MIN), Just(i64::MAX), Just(-1i64), any::<i64>()].prop_map(Val::I64),
        1 => prop_oneof![
            Just(f32::NAN.to_bits()), Just(f32::INFINITY.to_bits()), Just(f32::NEG_INFINITY.to_bits()), Just(0u32), Just((-0.0f32).to_bits()),
            Just(f32::MIN_POSITIVE.to_bits()), Just(f32::MAX.to_bits()), Just(1u32), any::<u32>(), any::<f32>().prop_map(|f| f.to_bits())
        ].prop_map(Val::F32),
        1 => prop_oneof![
            Just(f64::NAN.to_bits()), Just(f64::INFINITY.to_bits()), Just(f64::NEG_INFINITY.to_bits()), Just(0u64), Just((-0.0f64).to_bits()),
            Just(f64::MIN_POSITIVE.to_bits()), Just(f64::MAX.to_bits()), Just(1u64), any::<u64>(), any::<f64>().prop_map(|f| f.to_bits())
        ].prop_map(Val::F64),
        2 => strbytes(300).prop_map(Val::Utf8),
        2 => strbytes(300).prop_map(Val::Ascii),
        2 => bytes_interesting(300).prop_map(Val::Raw),
    ]
}

/// a value whose string form is valid for the serde front end (str: valid utf-8 without the terminating NUL added by the encoder)
pub fn text_val() -> impl Strategy<Value = String> {
    prop_oneof![
        Just(String::new()),
        "[ -~]{0,20}",
        "[a-zäöü€\\r\\n\\t ]{0,12}",
        "\\PC{0,8}",
    ]
}
