//! driving the `adlt remote` binary: server process + websocket client with frame log
use adlt::utils::remote_types::*;
use std::path::{Path, PathBuf};
use std::process::{Child, Command, Stdio};
use std::time::{Duration, Instant};
use tungstenite::{stream::MaybeTlsStream, Message};

type WS = tungstenite::WebSocket<MaybeTlsStream<std::net::TcpStream>>;

pub struct Server {
    pub child: Child,
    pub port: u16,
    pub stderr_path: PathBuf,
}

impl Server {
    pub fn start(dir: &Path, schedule: Option<&str>) -> Result<Server, String> {
        Server::start_with(dir, schedule, None)
    }
    /// `chan_cap`: capacity of the bounded channels between the server's processing stages (hook ADLT_VERIF_CHANNEL_CAP)
    pub fn start_with(dir: &Path, schedule: Option<&str>, chan_cap: Option<usize>) -> Result<Server, String> {
        for attempt in 0..8 {
            let port = portpicker::pick_unused_port().ok_or("no free port")?;
            let stderr_path = dir.join(format!("server_{}_{}.stderr", port, attempt));
            let stdout_path = dir.join(format!("server_{}_{}.stdout", port, attempt));
            let errf = std::fs::File::create(&stderr_path).map_err(|e| e.to_string())?;
            let outf = std::fs::File::create(&stdout_path).map_err(|e| e.to_string())?;
            let mut cmd = Command::new(crate::engine::adlt_bin());
            cmd.args(["remote", "-p", &port.to_string()]).env("TZ", "UTC").env("RAYON_NUM_THREADS", "2").stdin(Stdio::null()).stdout(outf).stderr(errf);
            match schedule {
                Some(s) => {
                    cmd.env("ADLT_VERIF_PARSE_SCHEDULE", s);
                }
                None => {
                    cmd.env_remove("ADLT_VERIF_PARSE_SCHEDULE");
                }
            }
            match chan_cap {
                Some(n) => {
                    cmd.env("ADLT_VERIF_CHANNEL_CAP", n.to_string());
                }
                None => {
                    cmd.env_remove("ADLT_VERIF_CHANNEL_CAP");
                }
            }
            let mut child = cmd.spawn().map_err(|e| format!("cannot spawn {}: {}", crate::engine::adlt_bin().display(), e))?;
            // wait until *this* process says that it listens (another worker's server may have got the same port:
            // a successful connect alone does not tell whose server answered)
            let end = Instant::now() + Duration::from_secs(10);
            let mut ok = false;
            while Instant::now() < end {
                if let Ok(Some(_)) = child.try_wait() {
                    break; // exited (port taken?)
                }
                let said = std::fs::read(&stdout_path).map(|b| String::from_utf8_lossy(&b).contains("remote server listening on")).unwrap_or(false);
                if said && std::net::TcpStream::connect(("127.0.0.1", port)).is_ok() {
                    ok = true;
                    break;
                }
                std::thread::sleep(Duration::from_millis(5));
            }
            if ok {
                return Ok(Server { child, port, stderr_path });
            }
            let _ = child.kill();
            let _ = child.wait();
        }
        Err("adlt remote did not start listening".into())
    }
    pub fn alive(&mut self) -> bool {
        matches!(self.child.try_wait(), Ok(None))
    }
    pub fn stderr_text(&self) -> String {
        std::fs::read_to_string(&self.stderr_path).unwrap_or_default()
    }
}
impl Drop for Server {
    fn drop(&mut self) {
        let _ = self.child.kill();
        let _ = self.child.wait();
    }
}

#[derive(Clone, Debug, PartialEq)]
pub struct RMsg {
    pub index: u32,
    pub reception_time: u64,
    pub timestamp_dms: u32,
    pub ecu: u32,
    pub apid: u32,
    pub ctid: u32,
    pub lifecycle: u32,
    pub htyp: u8,
    pub mcnt: u8,
    pub vmm: u8,
    pub noar: u8,
    pub text: String,
}

#[derive(Clone, Debug)]
pub enum Frame {
    Reply(String),
    StreamText(String),
    Msgs(u32, Vec<RMsg>),
    StreamInfo { id: u32, stream_msgs: u32, processed: u32, total: u32 },
    FileInfo(u32),
    Lifecycles(Vec<(u32, u32, u32)>),
    Other,
    Undecodable(usize),
}

pub struct Client {
    ws: WS,
    /// everything received, in order
    pub log: Vec<Frame>,
    pub socket_error: Option<String>,
}

impl Client {
    pub fn connect(port: u16) -> Result<Client, String> {
        let (mut ws, _) = tungstenite::connect(format!("ws://127.0.0.1:{}", port)).map_err(|e| format!("connect failed: {:?}", e))?;
        if let MaybeTlsStream::Plain(s) = ws.get_mut() {
            s.set_read_timeout(Some(Duration::from_millis(15))).map_err(|e| e.to_string())?;
        }
        Ok(Client { ws, log: vec![], socket_error: None })
    }
    /// read one frame if available; returns its position in the log
    fn next(&mut self) -> Option<usize> {
        if self.socket_error.is_some() {
            return None;
        }
        let f = match self.ws.read_message() {
            Ok(Message::Text(t)) => {
                if t.starts_with("stream:") {
                    Frame::StreamText(t)
                } else {
                    Frame::Reply(t)
                }
            }
            Ok(Message::Binary(b)) => {
                let r: Result<(BinType, usize), _> = bincode::decode_from_slice(&b, bincode::config::legacy());
                match r {
                    Ok((BinType::DltMsgs((id, msgs)), _)) => Frame::Msgs(
                        id,
                        msgs.iter()
                            .map(|m| RMsg {
                                index: m.index,
                                reception_time: m.reception_time,
                                timestamp_dms: m.timestamp_dms,
                                ecu: m.ecu,
                                apid: m.apid,
                                ctid: m.ctid,
                                lifecycle: m.lifecycle_id,
                                htyp: m.htyp,
                                mcnt: m.mcnt,
                                vmm: m.verb_mstp_mtin,
                                noar: m.noar,
                                text: m.payload_as_text.to_string(),
                            })
                            .collect(),
                    ),
                    Ok((BinType::StreamInfo(si), _)) => Frame::StreamInfo { id: si.stream_id, stream_msgs: si.nr_stream_msgs, processed: si.nr_file_msgs_processed, total: si.nr_file_msgs_total },
                    Ok((BinType::FileInfo(fi), _)) => Frame::FileInfo(fi.nr_msgs),
                    Ok((BinType::Lifecycles(l), _)) => Frame::Lifecycles(l.iter().map(|x| (x.id, x.ecu, x.nr_msgs)).collect()),
                    Ok(_) => Frame::Other,
                    Err(_) => Frame::Undecodable(b.len()),
                }
            }
            Ok(Message::Close(_)) => {
                self.socket_error = Some("server closed the connection".into());
                return None;
            }
            Ok(_) => Frame::Other,
            Err(tungstenite::Error::Io(e)) if e.kind() == std::io::ErrorKind::WouldBlock || e.kind() == std::io::ErrorKind::TimedOut => return None,
            Err(e) => {
                self.socket_error = Some(format!("{:?}", e));
                return None;
            }
        };
        self.log.push(f);
        Some(self.log.len() - 1)
    }
    pub fn send(&mut self, text: &str) -> Result<(), String> {
        self.ws.write_message(Message::Text(text.to_string())).map_err(|e| format!("send failed: {:?}", e))
    }
    /// send a command and wait for its reply (the next text frame that is not stream data)
    pub fn cmd(&mut self, text: &str, timeout: Duration) -> Result<String, String> {
        self.send(text)?;
        self.wait_reply(timeout)
    }
    pub fn wait_reply(&mut self, timeout: Duration) -> Result<String, String> {
        let end = Instant::now() + timeout;
        loop {
            if let Some(i) = self.next() {
                if let Frame::Reply(t) = &self.log[i] {
                    return Ok(t.clone());
                }
            }
            if let Some(e) = &self.socket_error {
                return Err(format!("connection lost: {}", e));
            }
            if Instant::now() > end {
                return Err("timeout waiting for the reply".into());
            }
        }
    }
    /// read for `dur`; returns replies that arrived unexpectedly
    pub fn pump(&mut self, dur: Duration) -> Vec<String> {
        let end = Instant::now() + dur;
        let mut extra = vec![];
        loop {
            if let Some(i) = self.next() {
                if let Frame::Reply(t) = &self.log[i] {
                    extra.push(t.clone());
                }
            }
            if self.socket_error.is_some() || Instant::now() > end {
                return extra;
            }
        }
    }
    /// read until `pred` holds on the log (checked after each frame) or the timeout expires
    pub fn wait_for(&mut self, timeout: Duration, pred: &dyn Fn(&[Frame]) -> bool) -> bool {
        let end = Instant::now() + timeout;
        loop {
            if pred(&self.log) {
                return true;
            }
            self.next();
            if self.socket_error.is_some() || Instant::now() > end {
                return pred(&self.log);
            }
        }
    }
    pub fn last_file_info(&self) -> Option<u32> {
        self.log.iter().rev().find_map(|f| if let Frame::FileInfo(n) = f { Some(*n) } else { None })
    }
}

pub fn reply_kind(r: &str) -> &'static str {
    if r.starts_with("ok:") {
        "ok"
    } else if r.starts_with("err:") {
        "err"
    } else if r.starts_with("unknown command") {
        "unknown"
    } else {
        "OTHER"
    }
}
pub fn id_in_reply(r: &str) -> Option<u32> {
    r.split("\"id\":").nth(1).and_then(|s| s.split(|c| c == ',' || c == '}').next()).and_then(|s| s.trim().parse::<u32>().ok())
}
