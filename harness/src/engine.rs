//! Shared engine: per-case seeded proptest generation, shrinking, worker processes,
//! supervisor, evidence, replay, known findings.
use proptest::strategy::{Strategy, ValueTree};
use proptest::test_runner::{Config, RngAlgorithm, TestRng, TestRunner};
use serde::de::DeserializeOwned;
use serde::{Deserialize, Serialize};
use std::collections::{BTreeMap, BTreeSet, HashSet};
use std::fmt::Debug;
use std::io::Write;
use std::path::{Path, PathBuf};
use std::sync::Mutex;

/// root of the verification machinery (the directory that holds `check`); `./check` exports VERIF_DIR
pub fn verif_dir() -> PathBuf {
    std::env::var("VERIF_DIR").map(PathBuf::from).unwrap_or_else(|_| PathBuf::from("/verif"))
}
pub fn adlt_bin() -> PathBuf {
    verif_dir().join("harness/target/adlt-bin/release/adlt")
}

#[derive(Clone, Copy, PartialEq, Eq, Debug)]
pub enum Tier {
    Quick,
    Thorough,
}
impl Tier {
    pub fn name(&self) -> &'static str {
        match self {
            Tier::Quick => "quick",
            Tier::Thorough => "thorough",
        }
    }
    pub fn pick<T>(&self, q: T, t: T) -> T {
        match self {
            Tier::Quick => q,
            Tier::Thorough => t,
        }
    }
}

/// what an oracle reports about a case besides pass/fail
#[derive(Default, Debug)]
pub struct Rep {
    pub nontrivial: bool,
    pub labels: Vec<&'static str>,
    /// case falls into the input class of a listed (open) finding -> excluded from the search, counted
    pub known: Option<&'static str>,
}
impl Rep {
    pub fn label(&mut self, l: &'static str) {
        if !self.labels.contains(&l) {
            self.labels.push(l);
        }
    }
    pub fn label_if(&mut self, c: bool, l: &'static str) {
        if c {
            self.label(l)
        }
    }
}

#[macro_export]
macro_rules! ensure {
    ($c:expr, $($arg:tt)*) => {
        if !($c) { return Err(format!($($arg)*)); }
    };
}
#[macro_export]
macro_rules! ensure_eq {
    ($a:expr, $b:expr, $($arg:tt)*) => {
        { let (a, b) = (&$a, &$b); if a != b { return Err(format!("{}: left={:?} right={:?}", format!($($arg)*), a, b)); } }
    };
}

// ---------------------------------------------------------------------------------------
// panic capture

static PANICS: Mutex<Vec<String>> = Mutex::new(Vec::new());

pub fn strip_digits(s: &str) -> String {
    s.chars().filter(|c| !c.is_ascii_digit()).collect()
}

pub fn install_panic_hook() {
    std::panic::set_hook(Box::new(|info| {
        let loc = info
            .location()
            .map(|l| l.file().to_string())
            .unwrap_or_default();
        let line = info.location().map(|l| l.line()).unwrap_or(0);
        let msg = if let Some(s) = info.payload().downcast_ref::<String>() {
            s.clone()
        } else if let Some(s) = info.payload().downcast_ref::<&str>() {
            s.to_string()
        } else {
            "?".into()
        };
        let short: String = msg.chars().take(160).collect();
        let sig = format!("{}:{} | {}", loc, line, short);
        if let Ok(mut p) = PANICS.lock() {
            if p.len() < 16 {
                p.push(sig);
            }
        }
    }));
}
pub fn take_panics() -> Vec<String> {
    std::mem::take(&mut *PANICS.lock().unwrap())
}

/// run an oracle, converting panics (also of threads spawned by the oracle) into failures
pub fn guarded<V>(
    oracle: &dyn Fn(&V, &mut Rep) -> Result<(), String>,
    v: &V,
) -> (Result<(), String>, Rep) {
    let _ = take_panics();
    let mut rep = Rep::default();
    let r = std::panic::catch_unwind(std::panic::AssertUnwindSafe(|| oracle(v, &mut rep)));
    let panics = take_panics();
    let r = match r {
        Ok(Ok(())) => {
            if panics.is_empty() {
                Ok(())
            } else {
                Err(format!("panic (caught/other thread): {}", panics.join(" || ")))
            }
        }
        Ok(Err(e)) => {
            if panics.is_empty() {
                Err(e)
            } else {
                Err(format!("{} [panics: {}]", e, panics.join(" || ")))
            }
        }
        Err(_) => Err(format!("panic: {}", panics.join(" || "))),
    };
    (r, rep)
}

// ---------------------------------------------------------------------------------------
// seeding

fn splitmix(x: &mut u64) -> u64 {
    *x = x.wrapping_add(0x9E3779B97F4A7C15);
    let mut z = *x;
    z = (z ^ (z >> 30)).wrapping_mul(0xBF58476D1CE4E5B9);
    z = (z ^ (z >> 27)).wrapping_mul(0x94D049BB133111EB);
    z ^ (z >> 31)
}
pub fn fnv(s: &[u8]) -> u64 {
    let mut h = 0xcbf29ce484222325u64;
    for b in s {
        h ^= *b as u64;
        h = h.wrapping_mul(0x100000001b3);
    }
    h
}
pub fn case_seed(seed: u64, prop: &str, sub: &str, index: u64) -> [u8; 32] {
    let mut x = seed ^ fnv(prop.as_bytes()).rotate_left(17) ^ fnv(sub.as_bytes()).rotate_left(41);
    x = x.wrapping_add(index.wrapping_mul(0xD6E8FEB86659FD93));
    let mut out = [0u8; 32];
    for i in 0..4 {
        out[i * 8..i * 8 + 8].copy_from_slice(&splitmix(&mut x).to_le_bytes());
    }
    out
}

fn runner_for(seed32: &[u8; 32]) -> TestRunner {
    let cfg = Config {
        failure_persistence: None,
        ..Config::default()
    };
    TestRunner::new_with_rng(cfg, TestRng::from_seed(RngAlgorithm::ChaCha, seed32))
}

// ---------------------------------------------------------------------------------------
// sub checks

pub struct CaseOut {
    pub result: Result<(), String>,
    pub rep: Rep,
    pub case_json: Option<serde_json::Value>, // Some for failures (shrunk) and when a sample is wanted
    pub hash: u64,
}

pub trait DynSub {
    fn name(&self) -> &'static str;
    fn cases(&self) -> u64;
    fn run_case(&self, seed32: &[u8; 32], want_json: bool) -> CaseOut;
    fn generate(&self, seed32: &[u8; 32]) -> serde_json::Value;
    fn replay(&self, case: &serde_json::Value) -> (Result<(), String>, Rep);
    /// labels that have to reach a minimal share of all cases (generator health)
    fn min_label_rates(&self) -> &[(&'static str, f64)];
    /// stop a worker's loop over this sub check after that many (shrunk) failures
    fn max_failures(&self) -> usize;
}

pub struct Sub<S: Strategy> {
    pub name: &'static str,
    pub cases: u64,
    pub strategy: S,
    #[allow(clippy::type_complexity)]
    pub oracle: Box<dyn Fn(&S::Value, &mut Rep) -> Result<(), String>>,
    pub min_rates: Vec<(&'static str, f64)>,
    pub max_shrink_iters: u32,
    pub max_shrink_secs: u64,
    pub max_failures: usize,
}

pub fn sub<S>(
    name: &'static str,
    cases: u64,
    strategy: S,
    oracle: impl Fn(&S::Value, &mut Rep) -> Result<(), String> + 'static,
) -> Sub<S>
where
    S: Strategy,
{
    Sub {
        name,
        cases,
        strategy,
        oracle: Box::new(oracle),
        min_rates: vec![],
        max_shrink_iters: 2000,
        max_shrink_secs: 120,
        max_failures: 3,
    }
}
impl<S: Strategy> Sub<S> {
    pub fn rates(mut self, r: &[(&'static str, f64)]) -> Self {
        self.min_rates = r.to_vec();
        self
    }
    pub fn shrink_iters(mut self, n: u32) -> Self {
        self.max_shrink_iters = n;
        self
    }
    /// for slow (process spawning) sub checks: little shrinking time, one counterexample per worker
    pub fn slow(mut self) -> Self {
        self.max_shrink_secs = 40;
        self.max_failures = 1;
        self
    }
    pub fn boxed(self) -> Box<dyn DynSub>
    where
        S: 'static,
        S::Value: Serialize + DeserializeOwned + Debug + Clone,
    {
        Box::new(self)
    }
}

impl<S> DynSub for Sub<S>
where
    S: Strategy,
    S::Value: Serialize + DeserializeOwned + Debug + Clone,
{
    fn name(&self) -> &'static str {
        self.name
    }
    fn cases(&self) -> u64 {
        self.cases
    }
    fn min_label_rates(&self) -> &[(&'static str, f64)] {
        &self.min_rates
    }
    fn max_failures(&self) -> usize {
        self.max_failures
    }
    fn generate(&self, seed32: &[u8; 32]) -> serde_json::Value {
        let mut runner = runner_for(seed32);
        let tree = self.strategy.new_tree(&mut runner).expect("generation failed");
        serde_json::to_value(tree.current()).unwrap()
    }
    fn run_case(&self, seed32: &[u8; 32], want_json: bool) -> CaseOut {
        let mut runner = runner_for(seed32);
        let mut tree = self
            .strategy
            .new_tree(&mut runner)
            .expect("generation failed (too many rejects?)");
        let v = tree.current();
        let js = serde_json::to_vec(&v).unwrap();
        let hash = fnv(&js);
        let (r, rep) = guarded(&*self.oracle, &v);
        if r.is_ok() || rep.known.is_some() {
            let case_json = if want_json {
                Some(serde_json::from_slice(&js).unwrap())
            } else {
                None
            };
            return CaseOut {
                result: Ok(()),
                rep,
                case_json,
                hash,
            };
        }
        // shrink (a failure that falls into a known class counts as pass so we dont drift)
        let mut best = (v, r.clone().unwrap_err(), rep);
        let mut iters = 0;
        let shrink_start = std::time::Instant::now();
        if tree.simplify() {
            loop {
                iters += 1;
                // the time budget only limits how small the counterexample gets, never the verdict
                if iters > self.max_shrink_iters || shrink_start.elapsed().as_secs() > self.max_shrink_secs {
                    break;
                }
                let cur = tree.current();
                let (r2, rep2) = guarded(&*self.oracle, &cur);
                if r2.is_err() && rep2.known.is_none() {
                    best = (cur, r2.unwrap_err(), rep2);
                    if !tree.simplify() {
                        break;
                    }
                } else if !tree.complicate() {
                    break;
                }
            }
        }
        CaseOut {
            result: Err(best.1),
            rep: best.2,
            case_json: Some(serde_json::to_value(&best.0).unwrap()),
            hash,
        }
    }
    fn replay(&self, case: &serde_json::Value) -> (Result<(), String>, Rep) {
        match serde_json::from_value::<S::Value>(case.clone()) {
            Ok(v) => guarded(&*self.oracle, &v),
            Err(e) => (
                Err(format!("replay: cannot deserialise case: {}", e)),
                Rep::default(),
            ),
        }
    }
}

/// A property = list of sub checks + descriptive texts for the evidence
pub struct PropertyDef {
    pub id: &'static str,
    pub rule: &'static str,
    pub assumptions: Vec<&'static str>,
    pub subs: Vec<Box<dyn DynSub>>,
    /// extra (non proptest) steps run once by the supervisor, e.g. libFuzzer campaigns. returns (evaluations, failures as (msg, replay path))
    pub workers: usize,
}

// ---------------------------------------------------------------------------------------
// replay files

#[derive(Serialize, Deserialize, Debug, Clone)]
pub struct ReplayFile {
    pub property: String,
    pub subcheck: String,
    pub seed: u64,
    pub index: u64,
    #[serde(default)]
    pub message: String,
    pub case: serde_json::Value,
    #[serde(default)]
    pub finding: Option<String>,
}

#[derive(Serialize, Deserialize, Debug, Clone)]
pub struct KnownFinding {
    pub id: String,
    pub properties: Vec<String>,
    pub status: String, // open | fixed
    pub what: String,
    #[serde(default)]
    pub repro: Vec<String>,
    #[serde(default)]
    pub commit: Option<String>,
    #[serde(default)]
    pub class: Option<String>,
}

pub fn load_known_findings() -> Vec<KnownFinding> {
    let p = verif_dir().join("known_findings.json");
    match std::fs::read(&p) {
        Ok(b) => serde_json::from_slice(&b).expect("known_findings.json invalid"),
        Err(_) => vec![],
    }
}

// ---------------------------------------------------------------------------------------
// worker

#[derive(Serialize, Deserialize, Default, Debug, Clone)]
pub struct SubStats {
    pub evaluations: u64,
    pub nontrivial: u64,
    pub nontrivial_hashes: Vec<u64>,
    pub labels: BTreeMap<String, u64>,
    pub excluded: BTreeMap<String, u64>,
    pub samples: Vec<serde_json::Value>,
    pub failures: Vec<ReplayFile>,
}
#[derive(Serialize, Deserialize, Default, Debug)]
pub struct WorkerResult {
    pub subs: BTreeMap<String, SubStats>,
    /// checkpoint only: name of the sub check in progress and the next case index of this worker
    #[serde(default)]
    pub resume_at: Option<(String, u64)>,
}

pub struct WorkerArgs {
    pub prop: String,
    pub tier: Tier,
    pub seed: u64,
    pub widx: u64,
    pub wcount: u64,
    pub out: PathBuf,
    pub skip: HashSet<(String, u64)>,
}

pub const MAX_FAILURES_PER_SUB: usize = 3;

/// exit code of a worker whose current case did not end within VERIF_HANG_S seconds
pub const EXIT_HANG: i32 = 97;
pub fn hang_secs() -> u64 {
    std::env::var("VERIF_HANG_S").ok().and_then(|s| s.parse().ok()).unwrap_or(600)
}

pub fn worker_main(def: PropertyDef, a: &WorkerArgs) {
    install_panic_hook();
    // C03 ("no attempt to allocate memory unrelated to the input size"): an address space limit is the backstop
    // behind the allocation watcher (an allocation beyond it aborts the worker; the supervisor reports the case)
    if def.id == "C03" {
        let lim = libc::rlimit { rlim_cur: 24 << 30, rlim_max: 24 << 30 };
        unsafe {
            libc::setrlimit(libc::RLIMIT_AS, &lim);
        }
    }
    let mut res = WorkerResult::default();
    let marker_path = a.out.with_extension("cur");
    let mut marker = std::fs::File::create(&marker_path).unwrap();
    // watchdog: a case (including its shrinking, which has its own budget) that runs longer than VERIF_HANG_S hangs
    let case_started = std::sync::Arc::new(std::sync::atomic::AtomicU64::new(0));
    {
        let cs = case_started.clone();
        let t0 = std::time::Instant::now();
        let limit = hang_secs();
        std::thread::spawn(move || loop {
            std::thread::sleep(std::time::Duration::from_millis(500));
            let started = cs.load(std::sync::atomic::Ordering::Relaxed);
            if started != 0 && t0.elapsed().as_secs() + 1 > started + limit {
                eprintln!("watchdog: current case runs for more than {} s", limit);
                std::process::exit(EXIT_HANG);
            }
        });
    }
    let t_worker = std::time::Instant::now();
    // a restarted worker (its predecessor crashed or hung in a case that is now on the skip list) continues from
    // the predecessor's last checkpoint instead of repeating the whole shard
    let part_path = a.out.with_extension("part");
    let mut resume: Option<(String, u64)> = None;
    if std::env::var("VERIF_RESUME").is_ok() {
        if let Some(r) = std::fs::read(&part_path).ok().and_then(|b| serde_json::from_slice::<WorkerResult>(&b).ok()) {
            resume = r.resume_at.clone();
            res = r;
            res.resume_at = None;
        }
    }
    let mut last_checkpoint = std::time::Instant::now();
    for s in &def.subs {
        let mut st = SubStats::default();
        let mut hashes: HashSet<u64> = HashSet::new();
        let n = s.cases();
        let mut i = a.widx;
        if let Some((rs, ri)) = &resume {
            if res.subs.contains_key(s.name()) && rs != s.name() {
                continue; // finished before the checkpoint
            }
            if rs == s.name() {
                st = res.subs.remove(s.name()).unwrap_or_default();
                hashes = st.nontrivial_hashes.drain(..).collect();
                i = *ri;
                resume = None;
            }
        }
        while i < n {
            if last_checkpoint.elapsed().as_millis() > 1500 {
                let mut snap = WorkerResult { subs: BTreeMap::new(), resume_at: Some((s.name().to_string(), i)) };
                for (k, v) in &res.subs {
                    snap.subs.insert(k.clone(), v.clone());
                }
                let mut cur = st.clone();
                cur.nontrivial_hashes = hashes.iter().copied().collect();
                snap.subs.insert(s.name().to_string(), cur);
                let tmp = part_path.with_extension("part.tmp");
                if std::fs::write(&tmp, serde_json::to_vec(&snap).unwrap()).is_ok() {
                    let _ = std::fs::rename(&tmp, &part_path);
                }
                last_checkpoint = std::time::Instant::now();
            }
            if a.skip.contains(&(s.name().to_string(), i)) {
                i += a.wcount;
                continue;
            }
            {
                use std::io::{Seek, SeekFrom};
                let _ = marker.seek(SeekFrom::Start(0));
                let _ = marker.write_all(format!("{} {}\n{:60}", s.name(), i, "").as_bytes());
            }
            case_started.store(t_worker.elapsed().as_secs() + 1, std::sync::atomic::Ordering::Relaxed);
            let seed32 = case_seed(a.seed, &a.prop, s.name(), i);
            let want_sample = st.samples.len() < 2;
            let out = s.run_case(&seed32, want_sample);
            st.evaluations += 1;
            if let Some(k) = out.rep.known {
                *st.excluded.entry(k.to_string()).or_insert(0) += 1;
            } else {
                for l in &out.rep.labels {
                    *st.labels.entry(l.to_string()).or_insert(0) += 1;
                }
                match out.result {
                    Ok(()) => {
                        if out.rep.nontrivial {
                            st.nontrivial += 1;
                            hashes.insert(out.hash);
                            if want_sample {
                                if let Some(j) = out.case_json {
                                    st.samples.push(truncate_json(j, 1500));
                                }
                            }
                        }
                    }
                    Err(msg) => {
                        if st.failures.len() < s.max_failures() {
                            st.failures.push(ReplayFile {
                                property: a.prop.clone(),
                                subcheck: s.name().to_string(),
                                seed: a.seed,
                                index: i,
                                message: msg,
                                case: out.case_json.unwrap_or(serde_json::Value::Null),
                                finding: None,
                            });
                        }
                        if st.failures.len() >= s.max_failures() {
                            break; // enough evidence for this sub check
                        }
                    }
                }
            }
            i += a.wcount;
        }
        st.nontrivial_hashes = hashes.into_iter().collect();
        res.subs.insert(s.name().to_string(), st);
    }
    let tmp = a.out.with_extension("tmp");
    std::fs::write(&tmp, serde_json::to_vec(&res).unwrap()).unwrap();
    std::fs::rename(&tmp, &a.out).unwrap();
}

pub fn truncate_json(v: serde_json::Value, max: usize) -> serde_json::Value {
    let s = v.to_string();
    if s.len() <= max {
        v
    } else {
        let mut cut = max;
        while !s.is_char_boundary(cut) {
            cut -= 1;
        }
        serde_json::Value::String(format!("{}…(truncated, {} bytes)", &s[..cut], s.len()))
    }
}

// ---------------------------------------------------------------------------------------
// supervisor

pub struct RunSummary {
    pub violations: Vec<(String, PathBuf)>, // (message, replay path)
    pub known_lines: Vec<String>,
    pub infra_errors: Vec<String>,
    pub subs: BTreeMap<String, SubStats>,
}

pub fn work_dir() -> PathBuf {
    let p = verif_dir().join("harness/target/work");
    let _ = std::fs::create_dir_all(&p);
    p
}

/// temp dir for code under test that uses std::env::temp_dir (kept inside the harness work dir)
pub fn tmp_dir() -> PathBuf {
    let p = work_dir().join("tmp");
    let _ = std::fs::create_dir_all(&p);
    p
}

fn self_exe() -> PathBuf {
    std::env::current_exe().unwrap()
}

pub fn write_replay(r: &ReplayFile) -> PathBuf {
    let dir = verif_dir().join("replays");
    let _ = std::fs::create_dir_all(&dir);
    let p = dir.join(format!(
        "{}_{}_{}_{}.json",
        r.property, r.subcheck, r.seed, r.index
    ));
    std::fs::write(&p, serde_json::to_vec_pretty(r).unwrap()).unwrap();
    p
}

/// run all workers for a property, restart on crashes
pub fn supervise(
    prop: &str,
    tier: Tier,
    seed: u64,
    sub_names_cases: &[(String, u64)],
    workers: usize,
    generate: &dyn Fn(&str, u64) -> serde_json::Value,
) -> RunSummary {
    let wd = work_dir().join(format!("{}_{}_{}", prop, tier.name(), std::process::id()));
    let _ = std::fs::remove_dir_all(&wd);
    std::fs::create_dir_all(&wd).unwrap();
    let mut summary = RunSummary {
        violations: vec![],
        known_lines: vec![],
        infra_errors: vec![],
        subs: BTreeMap::new(),
    };
    let total_cases: u64 = sub_names_cases.iter().map(|x| x.1).sum();
    let workers = std::cmp::max(1, std::cmp::min(workers as u64, total_cases.max(1))) as usize;
    struct W {
        idx: usize,
        child: std::process::Child,
        out: PathBuf,
        skip: Vec<(String, u64)>,
        restarts: u32,
    }
    let spawn = |idx: usize, skip: &[(String, u64)]| -> (std::process::Child, PathBuf) {
        let out = wd.join(format!("w{}.json", idx));
        let _ = std::fs::remove_file(&out);
        let resume = !skip.is_empty();
        let errf = std::fs::File::create(wd.join(format!("w{}.err", idx))).unwrap();
        let skip_s: Vec<String> = skip.iter().map(|(s, i)| format!("{}:{}", s, i)).collect();
        let child = std::process::Command::new(self_exe())
            .arg("worker")
            .arg(prop)
            .arg(tier.name())
            .arg(seed.to_string())
            .arg(idx.to_string())
            .arg(workers.to_string())
            .arg(&out)
            .arg(skip_s.join(","))
            .env("RAYON_NUM_THREADS", "1")
            .env("TZ", "UTC")
            .env("TMPDIR", tmp_dir())
            .env("VERIF_RUN_DIR", &wd)
            .envs(if resume { vec![("VERIF_RESUME", "1")] } else { vec![] })
            .stdin(std::process::Stdio::null())
            .stdout(std::process::Stdio::null())
            .stderr(errf)
            .spawn()
            .expect("cannot spawn worker");
        (child, out)
    };
    let mut ws: Vec<W> = (0..workers)
        .map(|idx| {
            let (child, out) = spawn(idx, &[]);
            W {
                idx,
                child,
                out,
                skip: vec![],
                restarts: 0,
            }
        })
        .collect();
    let mut results: Vec<WorkerResult> = vec![];
    let deadline_s: u64 = std::env::var("VERIF_DEADLINE_S").ok().and_then(|s| s.parse().ok()).unwrap_or(match tier {
        Tier::Quick => 1500,
        Tier::Thorough => 6 * 3600,
    });
    let t_start = std::time::Instant::now();
    // all workers are watched at once (a crashed or hung one is restarted while the others still run)
    while !ws.is_empty() {
        let mut exited: Option<(usize, Option<std::process::ExitStatus>)> = None;
        for (k, w) in ws.iter_mut().enumerate() {
            if let Some(st) = w.child.try_wait().expect("wait failed") {
                exited = Some((k, Some(st)));
                break;
            }
        }
        if exited.is_none() && t_start.elapsed().as_secs() > deadline_s {
            let w = &mut ws[0];
            let _ = w.child.kill();
            let _ = w.child.wait();
            exited = Some((0, None));
        }
        let (k, status) = match exited {
            Some(x) => x,
            None => {
                std::thread::sleep(std::time::Duration::from_millis(20));
                continue;
            }
        };
        let mut w = ws.remove(k);
        let status = match status {
            Some(s) => s,
            None => {
                summary.infra_errors.push(format!("watchdog: worker {} still running after {} s - killed (inconclusive, not a violation)", w.idx, deadline_s));
                continue;
            }
        };
        if status.success() && w.out.exists() {
            match std::fs::read(&w.out)
                .ok()
                .and_then(|b| serde_json::from_slice::<WorkerResult>(&b).ok())
            {
                Some(r) => results.push(r),
                None => summary
                    .infra_errors
                    .push(format!("worker {} wrote an unreadable result", w.idx)),
            }
            continue;
        }
        // crashed: which case?
        let marker = std::fs::read_to_string(w.out.with_extension("cur")).unwrap_or_default();
        let mut it = marker.lines().next().unwrap_or("").split_whitespace();
        let (sname, sidx) = (
            it.next().unwrap_or("").to_string(),
            it.next().and_then(|x| x.parse::<u64>().ok()),
        );
        let err_tail = {
            let e = std::fs::read_to_string(wd.join(format!("w{}.err", w.idx))).unwrap_or_default();
            let lines: Vec<&str> = e.lines().rev().take(6).collect();
            lines.into_iter().rev().collect::<Vec<_>>().join(" / ")
        };
        match sidx {
            Some(_) if !sname.is_empty() && summary.violations.len() >= 6 => {
                // the verdict is settled; the rest of this shard is not explored
                summary.infra_errors.push(format!("worker {} died/hung again at {} ({}); shard abandoned after 6 reported cases", w.idx, sname, status));
            }
            Some(i) if !sname.is_empty() && w.restarts < 8 => {
                let is_oom_kill = {
                    use std::os::unix::process::ExitStatusExt;
                    status.signal() == Some(9)
                };
                if is_oom_kill {
                    summary.infra_errors.push(format!(
                        "worker {} killed (SIGKILL) at {} {} - treated as infrastructure",
                        w.idx, sname, i
                    ));
                } else if status.code() == Some(EXIT_HANG) {
                    // the case did not end. Termination is part of the statement of C03 only; elsewhere the oracles
                    // bound their own waits and a stuck case is an inconclusive run (exit 2)
                    let rf = ReplayFile {
                        property: prop.to_string(),
                        subcheck: sname.clone(),
                        seed,
                        index: i,
                        message: format!("the case did not end within {} s", hang_secs()),
                        case: generate(&sname, i),
                        finding: None,
                    };
                    let p = write_replay(&rf);
                    if prop == "C03" {
                        summary.violations.push((rf.message.clone(), p));
                    } else {
                        summary.infra_errors.push(format!("watchdog: {} case {} of {} did not end within {} s (inconclusive; kept as {})", prop, i, sname, hang_secs(), p.display()));
                    }
                } else {
                    let rf = ReplayFile {
                        property: prop.to_string(),
                        subcheck: sname.clone(),
                        seed,
                        index: i,
                        message: format!("worker process died ({}): {}", status, err_tail),
                        case: generate(&sname, i),
                        finding: None,
                    };
                    let p = write_replay(&rf);
                    summary.violations.push((rf.message.clone(), p));
                }
                w.skip.push((sname, i));
                w.restarts += 1;
                let (child, out) = spawn(w.idx, &w.skip);
                w.child = child;
                w.out = out;
                ws.push(w);
            }
            _ => summary.infra_errors.push(format!(
                "worker {} died ({}) without usable progress marker: {}",
                w.idx, status, err_tail
            )),
        }
    }
    // merge
    for r in results {
        for (name, st) in r.subs {
            let e = summary.subs.entry(name).or_default();
            e.evaluations += st.evaluations;
            e.nontrivial += st.nontrivial;
            e.nontrivial_hashes.extend(st.nontrivial_hashes);
            for (k, v) in st.labels {
                *e.labels.entry(k).or_insert(0) += v;
            }
            for (k, v) in st.excluded {
                *e.excluded.entry(k).or_insert(0) += v;
            }
            if e.samples.len() < 3 {
                e.samples.extend(st.samples.into_iter().take(1));
            }
            for f in st.failures {
                if e.failures.len() >= 4 {
                    break; // a handful of (shrunk) counterexamples per sub check is enough
                }
                let p = write_replay(&f);
                summary
                    .violations
                    .push((format!("[{} #{}] {}", f.subcheck, f.index, f.message), p));
                e.failures.push(f);
            }
        }
    }
    let _ = std::fs::remove_dir_all(&wd);
    summary
}

// ---------------------------------------------------------------------------------------
// evidence

#[allow(clippy::too_many_arguments)]
pub fn write_evidence(
    prop: &str,
    tier: Tier,
    seed: u64,
    rule: &str,
    assumptions: &[&str],
    summary: &RunSummary,
    wall_s: f64,
    extra: serde_json::Value,
) {
    let mut evaluations = 0u64;
    let mut distinct: BTreeSet<(String, u64)> = BTreeSet::new();
    let mut subs_json = serde_json::Map::new();
    let mut samples = vec![];
    for (name, st) in &summary.subs {
        evaluations += st.evaluations;
        let d: HashSet<u64> = st.nontrivial_hashes.iter().copied().collect();
        for h in &d {
            distinct.insert((name.clone(), *h));
        }
        subs_json.insert(
            name.clone(),
            serde_json::json!({
                "evaluations": st.evaluations,
                "nontrivial": st.nontrivial,
                "distinct_nontrivial": d.len(),
                "labels": st.labels,
                "excluded_as_known_finding": st.excluded,
                "failures": st.failures.len(),
            }),
        );
        for s in st.samples.iter().take(2) {
            samples.push(serde_json::json!({"subcheck": name, "case": s}));
        }
    }
    let mut coverage = serde_json::json!({
        "evaluations": evaluations,
        "distinct_nontrivial": distinct.len(),
        "rule": rule,
        "samples": samples,
        "subchecks": subs_json,
        "known_finding_lines": summary.known_lines,
        "infrastructure_errors": summary.infra_errors,
    });
    if let serde_json::Value::Object(m) = extra {
        for (k, v) in m {
            coverage[k] = v;
        }
    }
    let ev = serde_json::json!({
        "property_id": prop,
        "tier": tier.name(),
        "seed": seed,
        "level": "exploration",
        "coverage": coverage,
        "assumptions": assumptions,
        "wall_s": wall_s,
        "violations": summary.violations.len(),
    });
    let dir = verif_dir().join("evidence");
    let _ = std::fs::create_dir_all(&dir);
    let p = dir.join(format!("{}.json", prop));
    let tmp = dir.join(format!("{}.json.tmp", prop));
    std::fs::write(&tmp, serde_json::to_vec_pretty(&ev).unwrap()).unwrap();
    std::fs::rename(tmp, p).unwrap();
}
