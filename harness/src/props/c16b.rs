//! C16 sub check B: streams/queries/windows/search/lookups against the adlt remote binary
use crate::engine::*;
use crate::model::filter::*;
use crate::model::remote::*;
use crate::model::trace::*;
use crate::props::c12::keep;
use crate::props::c14::Sandbox;
use crate::{ensure, ensure_eq};
use adlt::dlt::*;
use proptest::prelude::*;
use serde::{Deserialize, Serialize};
use std::io::Write;
use std::time::Duration;

#[derive(Clone, Debug, Serialize, Deserialize)]
pub struct Case {
    spec: Vec<(u8, u8, u8, u8)>, // apid, ctid, word, level
    repeat: u8,                  // log = spec repeated (bigger logs)
    filters: Vec<AF>,
    is_query: bool,
    binary: bool,
    win: (u16, u16),
    changes: Vec<(u16, u16)>,
    search: Option<(Vec<AF>, u16, u8)>,
    lookups: Vec<(bool, u16)>,
    throttle: u8,
    wait_parsed: bool,
    pause_resume: bool,
    #[serde(default)]
    sort: bool,
    /// messages 10 s apart (lifecycle confirmed after 7 messages: the rest arrives at the server loop while
    /// parsing runs); otherwise 1 ms apart (everything is held back by the lifecycle detection until the end)
    #[serde(default)]
    slow_clock: bool,
}

const F_APIDS: [&[u8; 4]; 4] = [b"ECU1", b"ECU2", b"AB\0\0", b"ABC\0"];
const F_CTIDS: [&[u8; 4]; 3] = [b"A\0\0\0", b"SYS\0", b"ABCD"];

fn fmsg_of(a: u8, c: u8, w: u8, l: u8) -> FMsg {
    // universe indices of model::filter::ID_UNIVERSE: apid from {0,1,2,3}, ctid from {4,5,6}
    FMsg { ecu: 0, ext: Some((0x01 | ((1 + l % 6) << 4), a % 4, 4 + c % 3)), lifecycle: 0, word: w, text_preset: false, odd_ecu: None }
}

fn gen_log(c: &Case) -> (Vec<FMsg>, Vec<DltMessage>) {
    let mut fm = vec![];
    for _ in 0..=c.repeat {
        for (a, ct, w, l) in &c.spec {
            fm.push(fmsg_of(*a, *ct, *w, *l));
        }
    }
    let msgs: Vec<DltMessage> = fm
        .iter()
        .enumerate()
        .map(|(i, f)| {
            let mut m = f.build(i as u32);
            m.payload_text = None;
            let sp: u64 = if c.slow_clock { 10_000_000 } else { 1000 };
            m.reception_time_us = BASE + i as u64 * sp;
            m.timestamp_dms = (i as u64 * sp / 100) as u32;
            m.lifecycle = 0;
            m
        })
        .collect();
    let _ = (F_APIDS, F_CTIDS);
    (fm, msgs)
}

struct Sess {
    c: Client,
    announced: Vec<(u32, usize)>, // id, log position of the announcing reply
}
impl Sess {
    fn cmd(&mut self, text: &str) -> Result<String, String> {
        let r = self.c.cmd(text, Duration::from_secs(20))?;
        if r.starts_with("ok:") {
            if let Some(id) = id_in_reply(&r) {
                self.announced.push((id, self.c.log.len() - 1));
            }
        }
        Ok(r)
    }
    fn msgs_of(&self, id: u32) -> (Vec<RMsg>, bool, Vec<(usize, String)>) {
        let mut v = vec![];
        let mut ended = false;
        let mut texts = vec![];
        for f in &self.c.log {
            match f {
                Frame::Msgs(i, m) if *i == id => {
                    if m.is_empty() {
                        ended = true;
                    }
                    v.extend(m.iter().cloned());
                }
                Frame::StreamText(t) => {
                    // "stream:<id> msg(<i>):<header text>"
                    if let Some(rest) = t.strip_prefix(&format!("stream:{} msg(", id)) {
                        if let Some((i, text)) = rest.split_once("):") {
                            if let Ok(i) = i.parse::<usize>() {
                                texts.push((i, text.to_string()));
                            }
                        }
                    }
                }
                _ => {}
            }
        }
        (v, ended, texts)
    }
    fn parsed_all(&self, total: usize) -> bool {
        self.c.log.iter().any(|f| matches!(f, Frame::FileInfo(n) if *n as usize >= total))
    }
}

fn check(c: &Case, rep: &mut Rep) -> Result<(), String> {
    let t0 = std::time::Instant::now();
    let r = check_inner(c, rep);
    if std::env::var("VERIF_DEBUG").is_ok() {
        eprintln!("C16B case took {:?} query={} binary={} throttle={} wait_parsed={} pause={} changes={} labels={:?}", t0.elapsed(), c.is_query, c.binary, c.throttle % 4, c.wait_parsed, c.pause_resume, c.changes.len(), rep.labels);
    }
    r
}

fn check_inner(c: &Case, rep: &mut Rep) -> Result<(), String> {
    let (fm, msgs) = gen_log(c);
    let total = msgs.len();
    let sb = Sandbox::new("c16");
    let path = sb.path("log.dlt");
    {
        let mut w = std::io::BufWriter::new(std::fs::File::create(&path).map_err(|e| e.to_string())?);
        for m in &msgs {
            m.to_write(&mut w).map_err(|e| e.to_string())?;
        }
        w.flush().map_err(|e| e.to_string())?;
    }
    let refpos: Vec<usize> = fm.iter().enumerate().filter(|(_, m)| keep(&c.filters, m, true)).map(|(i, _)| i).collect();
    let filters_active = c.filters.iter().any(|f| f.enabled && f.kind != 2);
    let schedule = match c.throttle % 4 {
        1 => Some((0..40).map(|_| "25:8").collect::<Vec<_>>().join(",")),
        2 => Some("7:50,2:40,3:40,5:40,10:40,20:40,40:40,80:40,160:40,320:40".to_string()),
        3 => Some("1:150,7:60,50:60,200:100".to_string()),
        _ => None,
    };
    let mut srv = Server::start(&sb.dir, schedule.as_deref())?;
    let mut s = Sess { c: Client::connect(srv.port)?, announced: vec![] };
    let stream_len_model = if filters_active { refpos.len() } else { total };
    let window = |w: (u16, u16)| -> (usize, usize) {
        let a = w.0 as usize % (stream_len_model + 4);
        (a, a + w.1 as usize % (stream_len_model + 10))
    };
    let expect_window = |w: (usize, usize)| -> Vec<usize> {
        let len = refpos.len();
        if w.0 < len && w.0 < w.1 {
            refpos[w.0..std::cmp::min(w.1, len)].to_vec()
        } else {
            vec![]
        }
    };
    let js: Vec<String> = c.filters.iter().map(to_json).collect();
    let mut window_changes = 0;
    let mut pages_total = 0;
    let mut arrival_cycles = 0;

    let result = (|| -> Result<(), String> {
        let r = s.cmd(&format!(r#"open {{"files":["{}"],"sort":{}}}"#, path.display(), c.sort))?;
        ensure!(r.starts_with("ok:"), "open failed: {}", r);
        let parsed_before_stream = c.wait_parsed || schedule.is_none();
        if parsed_before_stream {
            ensure!(s.c.wait_for(Duration::from_secs(15), &|log| log.iter().any(|f| matches!(f, Frame::FileInfo(n) if *n as usize >= total))), "file never reported as parsed ({} of {} messages)", s.c.last_file_info().unwrap_or(0), total);
        }
        if c.pause_resume {
            let r = s.cmd("pause")?;
            ensure!(r.starts_with("ok:"), "pause: {}", r);
        }
        let w0 = window(c.win);
        let kind = if c.is_query { "query" } else { "stream" };
        let r = s.cmd(&format!(r#"{} {{"window":[{},{}],"binary":{},"filters":[{}]}}"#, kind, w0.0, w0.1, c.binary, js.join(",")))?;
        ensure!(r.starts_with("ok:"), "{} refused: {}", kind, r);
        let mut id = id_in_reply(&r).ok_or("no id in reply")?;
        let mut id_chain = vec![id];
        if c.pause_resume {
            s.c.pump(Duration::from_millis(60));
            let (got, _, texts) = s.msgs_of(id);
            ensure!(got.is_empty() && texts.is_empty(), "data delivered while paused");
            let r = s.cmd("resume")?;
            ensure!(r.starts_with("ok:"), "resume: {}", r);
        }

        // verifies delivery of window w under stream id `id`
        let verify = |s: &mut Sess, id: u32, w: (usize, usize), what: &str, complete_expected: bool| -> Result<(), String> {
            let exp = expect_window(w);
            let n = exp.len();
            let binary = c.binary;
            let is_query = c.is_query;
            // wait until everything expected arrived (and for queries the end marker)
            s.c.wait_for(Duration::from_secs(15), &|log| {
                let mut cnt = 0;
                let mut ended = false;
                for f in log {
                    match f {
                        Frame::Msgs(i, m) if *i == id => {
                            cnt += m.len();
                            ended |= m.is_empty();
                        }
                        Frame::StreamText(t) if t.starts_with(&format!("stream:{} ", id)) => cnt += 1,
                        _ => {}
                    }
                }
                if is_query {
                    ended
                } else {
                    cnt >= n
                }
            });
            // a little longer: nothing beyond the window may follow
            s.c.pump(Duration::from_millis(if n == 0 { 250 } else { 120 }));
            let (got, ended, texts) = s.msgs_of(id);
            if binary {
                ensure!(texts.is_empty(), "{}: text frames on a binary stream", what);
                let gi: Vec<u32> = got.iter().map(|m| m.index).collect();
                let ei: Vec<u32> = exp.iter().map(|p| *p as u32).collect();
                if complete_expected {
                    ensure!(gi == ei, "{}: stream {} window [{},{}) of {} filtered messages: delivered message indices {:?} expected {:?}", what, id, w.0, w.1, refpos.len(), head(&gi), head(&ei));
                } else {
                    ensure!(gi.len() <= ei.len() && gi[..] == ei[..gi.len()], "{}: delivered messages {:?} are no prefix of the window {:?}", what, head(&gi), head(&ei));
                }
                for (g, p) in got.iter().zip(exp.iter()) {
                    let e = &msgs[*p];
                    ensure!(
                        g.reception_time == e.reception_time_us
                            && g.timestamp_dms == e.timestamp_dms
                            && g.ecu == e.ecu.as_u32le()
                            && g.apid == e.apid().unwrap().as_u32le()
                            && g.ctid == e.ctid().unwrap().as_u32le()
                            && g.mcnt == e.mcnt()
                            && g.htyp == e.standard_header.htyp
                            && g.vmm == e.verb_mstp_mtin().unwrap()
                            && g.noar == e.noar()
                            && g.text == e.payload_as_text().unwrap(),
                        "{}: fields of delivered message {} differ from the file: {:?}",
                        what,
                        g.index,
                        g
                    );
                }
            } else {
                ensure!(got.is_empty() || got.iter().all(|_| false), "{}: binary frames with messages on a text stream", what);
                let gi: Vec<usize> = texts.iter().map(|t| t.0).collect();
                let ei: Vec<usize> = (w.0..w.0 + n).collect();
                if complete_expected {
                    ensure!(gi == ei, "{}: text stream {} delivered positions {:?} expected {:?}", what, id, head(&gi), head(&ei));
                } else {
                    ensure!(gi.len() <= ei.len() && gi[..] == ei[..gi.len()], "{}: delivered positions are no prefix", what);
                }
                for ((_, t), p) in texts.iter().zip(exp.iter()) {
                    let mut b = vec![];
                    msgs[*p].header_as_text_to_write(&mut b).unwrap();
                    ensure!(t.as_bytes() == &b[..], "{}: text of position differs: {:?} vs {:?}", what, t, String::from_utf8_lossy(&b));
                }
            }
            if is_query && complete_expected {
                ensure!(ended, "{}: query {} not terminated by the empty frame", what, id);
            }
            Ok(())
        };
        // queries issued while parsing is still running may end early: only prefix correctness then
        // (a query that is created while the file is still being parsed has to wait for the rest as well: "for every
        // arrival pattern of parsed messages")
        let complete = true;
        let _ = parsed_before_stream;
        verify(&mut s, id, w0, "initial window", complete)?;
        // make sure everything is parsed before the rest
        ensure!(s.c.wait_for(Duration::from_secs(15), &|log| log.iter().any(|f| matches!(f, Frame::FileInfo(n) if *n as usize >= total))), "file never reported as parsed");
        ensure!(s.parsed_all(total), "harness");
        arrival_cycles = s.c.log.iter().filter(|f| matches!(f, Frame::FileInfo(_))).count();
        if !c.is_query {
            // stream keeps following: after parsing finished the initial window must be complete as well
            verify(&mut s, id, w0, "initial window after parsing finished", true)?;
            for ch in &c.changes {
                let w = window(*ch);
                let r = s.cmd(&format!("stream_change_window {} {},{}", id, w.0, w.1))?;
                ensure!(r.starts_with("ok:"), "stream_change_window refused: {}", r);
                let nid = id_in_reply(&r).ok_or("no id in change window reply")?;
                id = nid;
                id_chain.push(nid);
                window_changes += 1;
                verify(&mut s, id, w, "window after change", true)?;
            }
            // wait until the stream index caught up with the file
            let stream_len = if filters_active { refpos.len() } else { total };
            if filters_active {
                let chain = id_chain.clone();
                ensure!(s.c.wait_for(Duration::from_secs(20), &|log| log.iter().any(|f| matches!(f, Frame::StreamInfo{id: i, processed, ..} if chain.contains(i) && *processed as usize >= total))), "stream never reported all {} file messages as processed", total);
            }
            // search paging
            if let Some((sf, start, page)) = &c.search {
                let sjs: Vec<String> = sf.iter().map(to_json).collect();
                let page = std::cmp::max(1, *page as usize % 12);
                let sstart = *start as usize % (stream_len + 3);
                let stream_positions: Vec<usize> = if filters_active { refpos.clone() } else { (0..total).collect() };
                let exp: Vec<usize> = stream_positions.iter().enumerate().filter(|(si, p)| *si >= sstart && keep(sf, &fm[**p], true)).map(|(si, _)| si).collect();
                let mut pos = Some(sstart);
                let mut found: Vec<usize> = vec![];
                let mut pages = 0;
                while let Some(p) = pos {
                    let r = s.cmd(&format!(r#"stream_search {} {{"filters":[{}],"start_idx":{},"max_results":{}}}"#, id, sjs.join(","), p, page))?;
                    ensure!(r.starts_with("ok:"), "stream_search refused: {}", r);
                    let v: serde_json::Value = serde_json::from_str(r.splitn(2, '=').nth(1).unwrap_or("")).map_err(|e| format!("search reply not json: {} ({})", r, e))?;
                    let idxs: Vec<usize> = v["search_idxs"].as_array().ok_or("no search_idxs")?.iter().map(|x| x.as_u64().unwrap_or(u64::MAX) as usize).collect();
                    ensure!(idxs.len() <= page, "page with {} results > max_results {}", idxs.len(), page);
                    ensure!(idxs.iter().all(|i| *i >= p), "page starting at {} returned earlier position {:?}", p, idxs);
                    found.extend(idxs);
                    let next = v["next_search_idx"].as_u64().map(|x| x as usize);
                    if let Some(nx) = next {
                        ensure!(nx > p, "continuation position {} does not advance beyond {}", nx, p);
                    }
                    pos = next;
                    pages += 1;
                    ensure!(pages <= stream_len + 5, "paging does not terminate");
                }
                pages_total = pages;
                ensure!(found == exp, "search paging (start {}, page size {}, {} pages): union of pages {:?} != matching stream positions {:?}", sstart, page, pages, head(&found), head(&exp));
            }
            // lookups
            for (by_time, sel) in &c.lookups {
                let stream_positions: Vec<usize> = if filters_active { refpos.clone() } else { (0..total).collect() };
                if *by_time {
                    let t_ms = BASE / 1000 + (*sel as u64 % (total as u64 + 5)) * if c.slow_clock { 10_000 } else { 1 };
                    let r = s.cmd(&format!("stream_binary_search {} time_ms={}", id, t_ms))?;
                    let exp = stream_positions.iter().position(|p| msgs[*p].reception_time_us >= t_ms * 1000).unwrap_or(stream_positions.len());
                    ensure!(r.starts_with("ok:") && r.contains(&format!("\"filtered_msg_index\":{}}}", exp)), "time lookup {} ms: {} but the first stream message not before it is at position {}", t_ms, r, exp);
                } else {
                    let idx = *sel as usize % (total + 3);
                    let r = s.cmd(&format!("stream_binary_search {} index={}", id, idx))?;
                    if idx < total {
                        let exp = stream_positions.iter().position(|p| *p >= idx).unwrap_or(stream_positions.len());
                        ensure!(r.starts_with("ok:") && r.contains(&format!("\"filtered_msg_index\":{}}}", exp)), "index lookup {}: {} but the first stream message not before it is at position {}", idx, r, exp);
                    } else {
                        ensure!(r.starts_with("err:") || r.starts_with("ok:"), "index lookup beyond the end: {}", r);
                    }
                }
            }
        }
        // data frames only after the reply that announced their stream id
        for (pos, f) in s.c.log.iter().enumerate() {
            let fid = match f {
                Frame::Msgs(i, _) => Some(*i),
                Frame::StreamInfo { id, .. } => Some(*id),
                Frame::StreamText(t) => t.strip_prefix("stream:").and_then(|r| r.split(' ').next()).and_then(|x| x.parse().ok()),
                _ => None,
            };
            if let Some(fid) = fid {
                match s.announced.iter().find(|a| a.0 == fid) {
                    Some((_, apos)) => ensure!(*apos < pos, "frame for stream id {} arrived before the reply announcing it", fid),
                    None => return Err(format!("frame for stream id {} which was never announced", fid)),
                }
            }
        }
        // status frames are consistent with the reference as well
        let mut last_fi = 0u32;
        for f in s.c.log.iter() {
            match f {
                Frame::FileInfo(n) => {
                    ensure!(*n >= last_fi && *n as usize <= total, "file info reports {} messages after {} (file has {})", n, last_fi, total);
                    last_fi = *n;
                }
                Frame::StreamInfo { id: i, stream_msgs, processed, total: t } if id_chain.contains(i) => {
                    ensure!(*processed as usize <= total && *t as usize <= total && processed <= t, "stream info of {}: processed {} of {} (file has {})", i, processed, t, total);
                    if filters_active {
                        let exp = refpos.iter().filter(|p| **p < *processed as usize).count();
                        ensure_eq!(*stream_msgs as usize, exp, "stream info of {}: number of stream messages after {} processed file messages", i, processed);
                    } else {
                        ensure_eq!(stream_msgs, t, "stream info of unfiltered stream {}: stream messages vs file messages", i);
                    }
                }
                _ => {}
            }
        }
        ensure_eq!(last_fi as usize, total, "last file info vs number of messages in the file");
        let r = s.cmd("close")?;
        ensure!(r.starts_with("ok:"), "close failed: {}", r);
        Ok(())
    })();
    let alive = srv.alive();
    let stderr = srv.stderr_text();
    drop(s);
    drop(srv);
    result?;
    ensure!(alive && !stderr.contains("panicked"), "server died or panicked: {}", stderr.lines().rev().take(3).collect::<Vec<_>>().join(" / "));
    let ratio = if total == 0 { 0.0 } else { refpos.len() as f64 / total as f64 };
    let w0 = window(c.win);
    rep.label_if(c.is_query, "query");
    rep.label_if(!c.binary, "text_mode");
    rep.label_if(window_changes > 0, "window_change");
    rep.label_if(pages_total >= 2, "ge2_search_pages");
    rep.label_if(schedule.is_some() && !c.wait_parsed, "stream_created_while_parsing");
    rep.label_if(!filters_active, "no_active_filters");
    rep.label_if(c.sort, "sorted_session");
    rep.label_if(arrival_cycles >= 3, "ge3_arrival_cycles");
    rep.label_if(w0.0 >= refpos.len(), "window_beyond_end");
    rep.nontrivial = (ratio > 0.1 && ratio < 0.9 && w0.0 < refpos.len() && (w0.0 > 0 || w0.1 < refpos.len())) || pages_total >= 2 || window_changes >= 1;
    Ok(())
}

fn head<T: std::fmt::Debug>(v: &[T]) -> String {
    let s = format!("{:?}", &v[..std::cmp::min(v.len(), 24)]);
    if v.len() > 24 {
        format!("{}.. ({} items)", s, v.len())
    } else {
        s
    }
}

pub fn def_sub(tier: Tier) -> Box<dyn DynSub> {
    let simple = (prop_oneof![4 => Just(0u8), 2 => Just(1u8), 1 => Just(3u8)], prop::bool::weighted(0.9), 0u8..4).prop_flat_map(|(kind, enabled, what)| {
        let idc = |v: Vec<&'static str>| prop::sample::select(v).prop_map(|s| Some(IdCrit::Lit(s.to_string())));
        let apid = match what {
            0 | 3 => idc(vec!["ECU1", "ECU2", "AB", "ABC"]).boxed(),
            _ => Just(None).boxed(),
        };
        let ctid = match what {
            1 => idc(vec!["A", "SYS", "ABCD"]).boxed(),
            _ => Just(None).boxed(),
        };
        let pay = match what {
            2 => prop::sample::select(vec!["error", "Error", "low", "x", "beta"]).prop_map(|s| Some(PayCrit::Lit(s.to_string()))).boxed(),
            _ => Just(None).boxed(),
        };
        (Just(kind), Just(enabled), apid, ctid, pay, prop::option::weighted(0.15, 2u8..6))
    })
    .prop_map(|(kind, enabled, apid, ctid, payload, level_min)| AF { kind, enabled, negated: false, ecu: None, apid, ctid, mtype: None, level_min, level_max: None, payload, ignore_case: false, lifecycles: None, explicit_regex_flags: false });
    let filters = prop::collection::vec(simple.clone(), 0..4);
    let case = (
        (prop::collection::vec((0u8..4, 0u8..3, 0u8..8, 0u8..6), 5..120), prop_oneof![6 => Just(0u8), 2 => 1u8..4, 1 => 10u8..30]),
        filters,
        (prop::bool::weighted(0.3), prop::bool::weighted(0.75), (any::<u16>(), any::<u16>())),
        prop::collection::vec((any::<u16>(), any::<u16>()), 0..3),
        prop::option::weighted(0.6, (prop::collection::vec(simple, 0..3), any::<u16>(), 1u8..12)),
        prop::collection::vec((any::<bool>(), any::<u16>()), 0..3),
        (0u8..4, any::<bool>(), prop::bool::weighted(0.2), prop::bool::weighted(0.2), prop::bool::weighted(0.6)),
    )
        .prop_map(|((spec, repeat), filters, (is_query, binary, win), changes, search, lookups, (throttle, wait_parsed, pause_resume, sort, slow_clock))| Case { spec, repeat, filters, is_query, binary, win, changes, search, lookups, throttle, wait_parsed, pause_resume, sort, slow_clock });
    sub("remote_streams", tier.pick(220, 6_000), case, check)
        .rates(&[("query", 0.15), ("window_change", 0.3), ("ge2_search_pages", 0.15), ("stream_created_while_parsing", 0.15), ("no_active_filters", 0.1), ("text_mode", 0.1), ("ge3_arrival_cycles", 0.1)])
        .shrink_iters(40)
        .slow()
        .boxed()
}
