//! C20 Archives: volumes read as one file; extraction is faithful and confined
use crate::engine::*;
use crate::model::wire::Fill;
use crate::{ensure, ensure_eq};
use adlt::utils::seekablechain::SeekableChain;
use adlt::utils::unzip::{extract_archives, extract_to_dir, list_archive_contents};
use proptest::prelude::*;
use serde::{Deserialize, Serialize};
use std::collections::{BTreeMap, HashMap};
use std::io::{Cursor, Read, Seek, SeekFrom, Write};
use std::path::{Component, Path, PathBuf};
use std::sync::atomic::AtomicBool;
use std::sync::Arc;

// ------------------------------------------------------------------ A: chain vs cursor
#[derive(Clone, Debug, Serialize, Deserialize)]
pub enum COp {
    Read(u8),      // read until n bytes or end
    ReadOnce(u8),  // one read call
    Start(u16),    // in range
    Cur(u16),      // in range
    End(u16),      // in range
    Beyond(u16),   // target > len
    Negative(u16), // target < 0
}
type ChainCase = (u16, Vec<u16>, Vec<COp>);

fn split(data: &[u8], cuts: &[u16]) -> Vec<Vec<u8>> {
    let mut pts: Vec<usize> = cuts.iter().map(|c| (*c as usize * (data.len() + 1)) >> 16).collect();
    pts.sort();
    let mut out = vec![];
    let mut last = 0;
    for p in pts {
        out.push(data[last..p].to_vec());
        last = p;
    }
    out.push(data[last..].to_vec());
    out
}

fn read_n<R: Read>(r: &mut R, n: usize) -> std::io::Result<Vec<u8>> {
    let mut out = vec![];
    let mut buf = vec![0u8; n];
    while out.len() < n {
        let k = r.read(&mut buf[..n - out.len()])?;
        if k == 0 {
            break;
        }
        out.extend_from_slice(&buf[..k]);
    }
    Ok(out)
}

fn chain_check(v: &ChainCase, rep: &mut Rep) -> Result<(), String> {
    let (len, cuts, ops) = v;
    let data: Vec<u8> = (0..*len as usize).map(|i| ((i as u32).wrapping_mul(2654435761) >> 24) as u8).collect();
    let vols = split(&data, cuts);
    let mut chain = SeekableChain::new(vols.iter().cloned().map(Cursor::new).collect::<Vec<_>>());
    let mut model = Cursor::new(data.clone());
    let n = data.len() as i64;
    let bounds: Vec<usize> = vols.iter().scan(0usize, |a, v| { *a += v.len(); Some(*a) }).collect();
    let mut crossed_after_back = false;
    let mut went_back = false;
    for (oi, op) in ops.iter().enumerate() {
        let pos = model.position() as i64;
        let sel = |s: u16, m: i64| -> i64 { (s as i64 * (m + 1)) >> 16 };
        match op {
            COp::Read(k) => {
                let k = *k as usize + 1;
                let a = read_n(&mut chain, k).map_err(|e| format!("op {}: chain read error {}", oi, e))?;
                let b = read_n(&mut model, k).unwrap();
                ensure!(a == b, "op {}: read({}) at {} returned {:?}, a single file returns {:?}", oi, k, pos, a, b);
                if went_back && bounds.iter().any(|bd| (*bd as i64) > pos && (*bd as i64) < pos + a.len() as i64) {
                    crossed_after_back = true;
                }
            }
            COp::ReadOnce(k) => {
                let k = *k as usize + 1;
                let mut buf = vec![0u8; k];
                let got = chain.read(&mut buf).map_err(|e| format!("op {}: chain read error {}", oi, e))?;
                ensure!(got <= k, "read returned more than requested");
                if pos < n {
                    ensure!(got > 0, "op {}: single read({}) at {} of {} returned 0 (premature end)", oi, k, pos, n);
                }
                let mut exp = vec![0u8; got];
                model.read_exact(&mut exp).map_err(|_| format!("op {}: chain returned {} bytes at {} but only {} remain", oi, got, pos, n - pos))?;
                ensure!(buf[..got] == exp[..], "op {}: single read at {} returned wrong bytes", oi, pos);
            }
            COp::Start(s) => {
                let t = sel(*s, n);
                let a = chain.seek(SeekFrom::Start(t as u64)).map_err(|e| format!("op {}: seek error {}", oi, e))?;
                let b = model.seek(SeekFrom::Start(t as u64)).unwrap();
                ensure_eq!(a, b, "op {}: seek(Start({}))", oi, t);
                went_back |= t < pos;
            }
            COp::Cur(s) => {
                let t = sel(*s, n);
                let d = t - pos;
                let a = chain.seek(SeekFrom::Current(d)).map_err(|e| format!("op {}: seek error {}", oi, e))?;
                let b = model.seek(SeekFrom::Current(d)).unwrap();
                ensure_eq!(a, b, "op {}: seek(Current({})) from {}", oi, d, pos);
                went_back |= d < 0;
            }
            COp::End(s) => {
                let t = sel(*s, n);
                let d = t - n;
                let a = chain.seek(SeekFrom::End(d)).map_err(|e| format!("op {}: seek error {}", oi, e))?;
                let b = model.seek(SeekFrom::End(d)).unwrap();
                ensure_eq!(a, b, "op {}: seek(End({}))", oi, d);
                went_back |= t < pos;
            }
            COp::Beyond(s) => {
                // outside of the equivalence oracle: no panic, afterwards resynchronise with an in-range seek
                let beyond = 1 + *s as i64 / 3;
                let _ = match *s % 3 {
                    0 => chain.seek(SeekFrom::Start((n + beyond) as u64)),
                    1 => chain.seek(SeekFrom::End(beyond)),
                    _ if *s % 7 == 0 => chain.seek(SeekFrom::Current(i64::MAX)),
                    _ if *s % 7 == 1 => chain.seek(SeekFrom::Start(u64::MAX)),
                    _ => chain.seek(SeekFrom::Current(n - pos + beyond)),
                };
                // a read with an empty buffer returns 0 wherever the position is
                ensure_eq!(chain.read(&mut []).map_err(|e| e.to_string())?, 0, "op {}: read into an empty buffer", oi);
                let a = chain.seek(SeekFrom::Start(pos as u64)).map_err(|e| format!("op {}: seek error {}", oi, e))?;
                ensure_eq!(a, pos as u64, "op {}: in-range seek after a seek beyond the end", oi);
            }
            COp::Negative(s) => {
                let _ = match *s % 4 {
                    0 => chain.seek(SeekFrom::Current(i64::MIN)),
                    1 => chain.seek(SeekFrom::End(i64::MIN)),
                    _ => chain.seek(SeekFrom::Current(-(pos + 1 + *s as i64))),
                };
                let a = chain.seek(SeekFrom::Start(pos as u64)).map_err(|e| format!("op {}: seek error {}", oi, e))?;
                ensure_eq!(a, pos as u64, "op {}: in-range seek after a seek before the start", oi);
            }
        }
    }
    // finally everything from the start equals the concatenation
    chain.seek(SeekFrom::Start(0)).map_err(|e| e.to_string())?;
    let all = read_n(&mut chain, data.len() + 10).map_err(|e| e.to_string())?;
    ensure!(all == data, "reading the chain from the start gives {} bytes, the concatenation has {}", all.len(), data.len());
    rep.label_if(vols.iter().any(|v| v.is_empty()), "empty_volume");
    rep.label_if(vols.len() >= 2, "ge2_volumes");
    rep.label_if(crossed_after_back, "boundary_crossed_after_backward_seek");
    rep.nontrivial = vols.iter().filter(|v| !v.is_empty()).count() >= 2 && crossed_after_back;
    Ok(())
}

// ------------------------------------------------------------------ B: zip extraction
#[derive(Clone, Debug, Serialize, Deserialize)]
pub struct Member {
    name_kind: u8,
    n: u8,
    content: Fill,
    is_dir: bool,
}
#[derive(Clone, Debug, Serialize, Deserialize)]
pub struct ZipCase {
    members: Vec<Member>,
    deflate: bool,
    volumes: Vec<u16>,
    glob: u8,
    call: u8,
}

fn member_name(m: &Member, sandbox_victim: &str, pid_tag: &str) -> String {
    let n = m.n % 4;
    let base = match m.name_kind % 18 {
        14 => format!("{}{}.dlt", "l".repeat(300), n), // longer than a file name may be
        15 => String::new(),
        16 => "cf".to_string(),            // a file ...
        17 => format!("cf/x{}.dlt", n),    // ... and a member below a directory of the same name
        0 => format!("a{}.dlt", n),
        1 => format!("d1/d2/b{}.dlt", n),
        2 => format!("./c{}.dlt", n),
        3 => format!("d1//e{}.dlt", n),
        4 => format!("sp ace{}.txt", n),
        5 => format!("ünï{}.dlt", n),
        6 => format!("../x{}.dlt", n),
        7 => format!("d/../../y{}.dlt", n),
        8 => sandbox_victim.to_string(),
        9 => format!("/abs_not_existing_{}/z{}.dlt", pid_tag, n),
        10 => format!("d/../in{}.dlt", n),
        11 => format!("d1/f{}.bin", n),
        12 => format!("[x]{}.dlt", n),
        _ => format!("a{}.dlt", n),
    };
    if m.is_dir {
        format!("dir{}/", n)
    } else {
        base
    }
}

/// hand written zip writer (stored), allows duplicate and hostile names
fn write_zip_stored(members: &[(String, Vec<u8>)]) -> Vec<u8> {
    let mut out = vec![];
    let mut central = vec![];
    for (name, data) in members {
        let crc = crc32fast::hash(data);
        let off = out.len() as u32;
        let nb = name.as_bytes();
        let flags: u16 = 0x0800; // utf-8 names
        out.extend_from_slice(&0x04034b50u32.to_le_bytes());
        out.extend_from_slice(&20u16.to_le_bytes());
        out.extend_from_slice(&flags.to_le_bytes());
        out.extend_from_slice(&0u16.to_le_bytes()); // stored
        out.extend_from_slice(&0u16.to_le_bytes());
        out.extend_from_slice(&0x21u16.to_le_bytes());
        out.extend_from_slice(&crc.to_le_bytes());
        out.extend_from_slice(&(data.len() as u32).to_le_bytes());
        out.extend_from_slice(&(data.len() as u32).to_le_bytes());
        out.extend_from_slice(&(nb.len() as u16).to_le_bytes());
        out.extend_from_slice(&0u16.to_le_bytes());
        out.extend_from_slice(nb);
        out.extend_from_slice(data);
        central.extend_from_slice(&0x02014b50u32.to_le_bytes());
        central.extend_from_slice(&0x031eu16.to_le_bytes()); // made by unix
        central.extend_from_slice(&20u16.to_le_bytes());
        central.extend_from_slice(&flags.to_le_bytes());
        central.extend_from_slice(&0u16.to_le_bytes());
        central.extend_from_slice(&0u16.to_le_bytes());
        central.extend_from_slice(&0x21u16.to_le_bytes());
        central.extend_from_slice(&crc.to_le_bytes());
        central.extend_from_slice(&(data.len() as u32).to_le_bytes());
        central.extend_from_slice(&(data.len() as u32).to_le_bytes());
        central.extend_from_slice(&(nb.len() as u16).to_le_bytes());
        central.extend_from_slice(&0u16.to_le_bytes());
        central.extend_from_slice(&0u16.to_le_bytes());
        central.extend_from_slice(&0u16.to_le_bytes());
        central.extend_from_slice(&0u16.to_le_bytes());
        let ext_attr: u32 = if name.ends_with('/') { (0o040755u32 << 16) | 0x10 } else { 0o100644u32 << 16 };
        central.extend_from_slice(&ext_attr.to_le_bytes());
        central.extend_from_slice(&off.to_le_bytes());
        central.extend_from_slice(nb);
    }
    let cd_off = out.len() as u32;
    out.extend_from_slice(&central);
    out.extend_from_slice(&0x06054b50u32.to_le_bytes());
    out.extend_from_slice(&0u16.to_le_bytes());
    out.extend_from_slice(&0u16.to_le_bytes());
    out.extend_from_slice(&(members.len() as u16).to_le_bytes());
    out.extend_from_slice(&(members.len() as u16).to_le_bytes());
    out.extend_from_slice(&(central.len() as u32).to_le_bytes());
    out.extend_from_slice(&cd_off.to_le_bytes());
    out.extend_from_slice(&0u16.to_le_bytes());
    out
}

fn write_zip_deflate(members: &[(String, Vec<u8>)]) -> Option<Vec<u8>> {
    let mut w = zip::ZipWriter::new(Cursor::new(vec![]));
    let opt = zip::write::SimpleFileOptions::default().compression_method(zip::CompressionMethod::Deflated);
    for (name, data) in members {
        if name.ends_with('/') {
            w.add_directory(name.trim_end_matches('/'), opt).ok()?;
        } else {
            w.start_file(name.as_str(), opt).ok()?;
            w.write_all(data).ok()?;
        }
    }
    Some(w.finish().ok()?.into_inner())
}

fn leads_outside(name: &str) -> bool {
    if name.contains('\0') {
        return true;
    }
    let mut depth = 0i32;
    for c in Path::new(name).components() {
        match c {
            Component::Prefix(_) | Component::RootDir => return true,
            Component::ParentDir => {
                depth -= 1;
                if depth < 0 {
                    return true;
                }
            }
            Component::Normal(_) => depth += 1,
            Component::CurDir => {}
        }
    }
    false
}
/// members that the file system may refuse (name too long, empty name, file and directory of the same name): they may be
/// missing from the result - but they must not keep the other members from being extracted
fn may_be_refused(name: &str) -> bool {
    name.is_empty() || name == "cf" || name.starts_with("cf/") || name.split('/').any(|c| c.len() > 255)
}
fn norm(p: &Path) -> String {
    let mut parts: Vec<String> = vec![];
    for c in p.components() {
        match c {
            Component::Normal(s) => parts.push(s.to_string_lossy().into_owned()),
            Component::ParentDir => {
                parts.pop();
            }
            _ => {}
        }
    }
    parts.join("/")
}

fn snapshot(dir: &Path) -> BTreeMap<PathBuf, Vec<u8>> {
    let mut m = BTreeMap::new();
    let mut stack = vec![dir.to_path_buf()];
    while let Some(d) = stack.pop() {
        if let Ok(rd) = std::fs::read_dir(&d) {
            for e in rd.flatten() {
                let p = e.path();
                if p.is_dir() {
                    m.insert(p.clone(), vec![]);
                    stack.push(p);
                } else {
                    m.insert(p.clone(), std::fs::read(&p).unwrap_or_default());
                }
            }
        }
    }
    m
}

static CASE_NR: std::sync::atomic::AtomicUsize = std::sync::atomic::AtomicUsize::new(0);
const GLOBS: [&str; 10] = ["**/*", "*.dlt", "d1/**", "**/b0.dlt", "a0.dlt", "*", "[ab]*", "d1/*", "**/*.bin", "[x]0.dlt"];

fn zip_check(c: &ZipCase, rep: &mut Rep) -> Result<(), String> {
    let nr = CASE_NR.fetch_add(1, std::sync::atomic::Ordering::Relaxed);
    let root = work_dir().join(format!("c20_{}_{}", std::process::id(), nr));
    let _ = std::fs::remove_dir_all(&root);
    std::fs::create_dir_all(root.join("arch")).map_err(|e| e.to_string())?;
    std::fs::create_dir_all(root.join("outside")).map_err(|e| e.to_string())?;
    std::fs::create_dir_all(root.join("target")).map_err(|e| e.to_string())?;
    let r = zip_check_in(c, rep, &root, nr);
    let _ = std::fs::remove_dir_all(&root);
    r
}

fn zip_check_in(c: &ZipCase, rep: &mut Rep, root: &Path, nr: usize) -> Result<(), String> {
    let victim = root.join("outside/victim.txt");
    std::fs::write(&victim, b"victim").map_err(|e| e.to_string())?;
    let tag = format!("{}_{}", std::process::id(), nr);
    let mut members: Vec<(String, Vec<u8>)> = c.members.iter().map(|m| (member_name(m, victim.to_str().unwrap(), &tag), if m.is_dir { vec![] } else { m.content.bytes() })).collect();
    let has_dup = {
        let mut names: Vec<&String> = members.iter().map(|m| &m.0).collect();
        names.sort();
        names.windows(2).any(|w| w[0] == w[1])
    };
    let bytes = if c.deflate && !has_dup {
        match write_zip_deflate(&members) {
            Some(b) => {
                rep.label("deflate");
                b
            }
            None => write_zip_stored(&members),
        }
    } else {
        write_zip_stored(&members)
    };
    // the zip crate keeps the last member of a duplicated name
    let mut by_name: HashMap<String, Vec<Vec<u8>>> = HashMap::new();
    for (n, d) in &members {
        by_name.entry(n.clone()).or_default().push(d.clone());
    }
    members.dedup_by(|a, b| a.0 == b.0);
    let hostile = members.iter().any(|m| leads_outside(&m.0));
    rep.label_if(hostile, "hostile_name");
    rep.label_if(has_dup, "duplicate_name");
    rep.label_if(members.iter().any(|m| m.1.is_empty() && !m.0.ends_with('/')), "empty_member");
    // volumes on disk. The archive's name is unique, or (a third of the cases) the same in every case: archives of one
    // name in different directories, handled by one process within seconds of each other
    let vols = split(&bytes, &c.volumes);
    let multi = vols.len() > 1;
    rep.label_if(multi, "multi_volume");
    // (not together with the bare relative name below: there the harness changes the working directory, which adlt never
    // does - the same relative name would denote different files within one process)
    let bare = c.volumes.len() % 2 == 1 || (!multi && c.members.len() % 4 == 0);
    let shared_name = c.members.len() % 3 == 1 && !(c.call % 3 == 2 && bare);
    let stem = if shared_name { "logs".to_string() } else { format!("t{}", nr) };
    rep.label_if(shared_name, "archive_name_used_before_in_another_directory");
    let arch_dir = root.join("arch");
    let first = if multi {
        // (written last volume first: the order in the directory must not matter)
        for (i, v) in vols.iter().enumerate().rev() {
            std::fs::write(arch_dir.join(format!("{}.zip.{:03}", stem, i + 1)), v).map_err(|e| e.to_string())?;
        }
        // other files next to the volumes that do not belong to this archive
        for decoy in [format!("{}0.zip.001", stem), format!("x{}.zip.002", stem), format!("{}.zip.0010", stem), format!("{}.ZIP.002", stem), format!("{}.zip.00a", stem)] {
            std::fs::write(arch_dir.join(decoy), b"not a volume of this archive").map_err(|e| e.to_string())?;
        }
        arch_dir.join(format!("{}.zip.001", stem))
    } else {
        let p = arch_dir.join(format!("{}.zip", stem));
        std::fs::write(&p, &bytes).map_err(|e| e.to_string())?;
        p
    };
    let open_chain = || -> Result<SeekableChain<std::fs::File>, String> {
        let mut files = vec![];
        if multi {
            for i in 0..vols.len() {
                files.push(std::fs::File::open(arch_dir.join(format!("{}.zip.{:03}", stem, i + 1))).map_err(|e| e.to_string())?);
            }
        } else {
            files.push(std::fs::File::open(&first).map_err(|e| e.to_string())?);
        }
        Ok(SeekableChain::new(files))
    };
    let unique_names: Vec<String> = by_name.keys().cloned().collect();
    // listing
    let mut listed = list_archive_contents(open_chain()?).map_err(|e| format!("valid archive rejected by list_archive_contents: {} ({} members, {} volumes)", e, members.len(), vols.len()))?;
    listed.sort();
    let mut exp_listed = unique_names.clone();
    exp_listed.sort();
    ensure_eq!(listed, exp_listed, "archive listing");

    if shared_name && c.call % 3 == 2 {
        // just before: another archive of the same file name, in another directory, with other members
        let cancel = Arc::new(AtomicBool::new(false));
        let log = slog::Logger::root(slog::Discard, slog::o!());
        let other_dir = root.join("arch_other");
        std::fs::create_dir_all(&other_dir).map_err(|e| e.to_string())?;
        let other = other_dir.join(format!("{}.zip", stem));
        std::fs::write(&other, write_zip_stored(&[("only/in_the_other.txt".to_string(), b"other".to_vec())])).map_err(|e| e.to_string())?;
        let mut other_dirs = vec![];
        let ro = extract_archives(other.display().to_string(), &mut other_dirs, &cancel, &log);
        ensure!(ro.len() == 1 && ro[0].ends_with("in_the_other.txt"), "harness: the other archive of the same name gave {:?}", ro);
    }
    let before = snapshot(root);
    let cancel = Arc::new(AtomicBool::new(false));
    let pat = GLOBS[c.glob as usize % GLOBS.len()];
    let gp = glob::Pattern::new(pat).unwrap();
    let selected: Vec<String> = unique_names.iter().filter(|n| (*n == pat || gp.matches(n)) && !n.ends_with('/')).cloned().collect();
    // extract_archives: "<archive>/<pattern>", "<archive>!/<pattern>" or the archive alone (= everything)
    let form = if c.call % 3 == 2 { c.members.len() % 3 } else { 0 };
    let expected: Vec<String> = match (c.call % 3, form) {
        (0, _) | (2, 2) => unique_names.iter().filter(|n| !n.ends_with('/') && !leads_outside(n)).cloned().collect(),
        _ => selected.iter().filter(|n| !leads_outside(n)).cloned().collect(),
    };
    rep.label_if(!expected.is_empty() && expected.len() < unique_names.iter().filter(|n| !n.ends_with('/')).count(), "proper_subset_selected");
    rep.nontrivial = unique_names.len() >= 2 && (c.call % 3 == 0 || (!expected.is_empty() && expected.len() < unique_names.len()));
    let (target, reported): (PathBuf, Vec<PathBuf>) = match c.call % 3 {
        0 | 1 => {
            let target = root.join("target");
            let filter = if c.call % 3 == 0 { None } else { Some(selected.clone()) };
            rep.label(if c.call % 3 == 0 { "extract_to_dir_all" } else { "extract_to_dir_filter" });
            let r = extract_to_dir(open_chain()?, &target, filter, &HashMap::new(), &cancel).map_err(|e| format!("extract_to_dir failed on a valid archive: {}", e))?;
            (target.clone(), r.into_iter().map(|p| target.join(p)).collect())
        }
        _ => {
            rep.label("extract_archives");
            let mut temp_dirs = vec![];
            // the archive named by its bare file name, from within its directory (as on a command line)
            let prev_cwd = std::env::current_dir().ok();
            let first_arg: String = if bare {
                std::env::set_current_dir(&arch_dir).map_err(|e| e.to_string())?;
                rep.label("bare_relative_archive_name");
                first.file_name().unwrap().to_string_lossy().into_owned()
            } else {
                first.display().to_string()
            };
            struct Restore(Option<PathBuf>);
            impl Drop for Restore {
                fn drop(&mut self) {
                    if let Some(p) = &self.0 {
                        let _ = std::env::set_current_dir(p);
                    }
                }
            }
            let _restore = Restore(if bare { prev_cwd } else { None });
            let arg = match form {
                1 => format!("{}!/{}", first_arg, pat),
                2 => first_arg.clone(),
                _ => format!("{}/{}", first_arg, pat),
            };
            rep.label(["archive_slash_pattern", "archive_bang_pattern", "archive_alone"][form]);
            let log = slog::Logger::root(slog::Discard, slog::o!());
            let r = extract_archives(arg.clone(), &mut temp_dirs, &cancel, &log);
            if expected.is_empty() {
                // nothing to extract: either nothing is reported or (no match / error) the name itself
                ensure!(r.is_empty() || r == vec![arg.clone()], "nothing matches but {:?} is reported", r);
                (root.join("target"), vec![])
            } else {
                ensure!(temp_dirs.len() == 1, "expected one temp dir, got {} (reported {:?})", temp_dirs.len(), r);
                let t = temp_dirs[0].1.path().to_path_buf();
                let paths: Vec<PathBuf> = r.iter().map(PathBuf::from).collect();
                // verify inside the scope of temp_dirs (the TempDir is removed on drop)
                let mut res = verify(&t, &paths, &expected, &by_name);
                if res.is_ok() {
                    // a second request for the same archive (other pattern) reuses the temp dir: again exactly the
                    // matching members are reported, nothing else appears in the directory
                    let pat2 = GLOBS[(c.glob as usize + 1 + c.call as usize) % GLOBS.len()];
                    let gp2 = glob::Pattern::new(pat2).unwrap();
                    let exp2: Vec<String> = unique_names.iter().filter(|n| (*n == pat2 || gp2.matches(n)) && !n.ends_with('/') && !leads_outside(n)).cloned().collect();
                    let arg2 = format!("{}/{}", first_arg, pat2);
                    let r2 = extract_archives(arg2.clone(), &mut temp_dirs, &cancel, &log);
                    if exp2.is_empty() {
                        if !(r2.is_empty() || r2 == vec![arg2.clone()]) {
                            res = Err(format!("second request {:?}: nothing matches but {:?} is reported", pat2, r2));
                        }
                    } else {
                        let paths2: Vec<PathBuf> = r2.iter().map(PathBuf::from).collect();
                        res = verify(&t, &paths2, &exp2, &by_name).map_err(|e| format!("second request with pattern {:?} on the same archive: {}", pat2, e));
                    }
                    if res.is_ok() {
                        // directory content = union of both selections
                        let mut have: Vec<String> = snapshot(&t).iter().filter(|(_, d)| true || d.is_empty()).filter(|(p, _)| p.is_file()).map(|(p, _)| norm(p.strip_prefix(&t).unwrap_or(p))).collect();
                        have.sort();
                        have.dedup();
                        let mut want: Vec<String> = expected.iter().chain(exp2.iter()).map(|n| norm(Path::new(n))).collect();
                        want.sort();
                        want.dedup();
                        let opt: Vec<String> = unique_names.iter().filter(|n| may_be_refused(n)).map(|n| norm(Path::new(n))).collect();
                        have.retain(|x| !opt.contains(x));
                        want.retain(|x| !opt.contains(x));
                        if have != want {
                            res = Err(format!("after two requests ({:?}, {:?}) the temp dir holds {:?}, expected {:?}", pat, pat2, have, want));
                        }
                    }
                    rep.label("second_request_same_archive");
                }
                drop(temp_dirs);
                res?;
                (t, vec![])
            }
        }
    };
    if c.call % 3 != 2 {
        verify(&target, &reported, &expected, &by_name)?;
        // and nothing else was written into the target directory (extracted but not reported)
        let mut have: Vec<String> = snapshot(&target).iter().filter(|(p, _)| p.is_file()).map(|(p, _)| norm(p.strip_prefix(&target).unwrap_or(p))).collect();
        have.sort();
        have.dedup();
        let mut want: Vec<String> = expected.iter().map(|n| norm(Path::new(n))).collect();
        want.sort();
        want.dedup();
        let opt: Vec<String> = unique_names.iter().filter(|n| may_be_refused(n)).map(|n| norm(Path::new(n))).collect();
        have.retain(|x| !opt.contains(x));
        want.retain(|x| !opt.contains(x));
        ensure_eq!(have, want, "files in the target directory vs members to extract");
    }
    // nothing created or changed outside of the target directory
    let after = snapshot(root);
    for (p, d) in &after {
        if p.starts_with(root.join("target")) {
            continue;
        }
        match before.get(p) {
            Some(old) => ensure!(old == d, "file outside of the target directory was modified: {}", p.display()),
            None => return Err(format!("file created outside of the target directory: {}", p.display())),
        }
    }
    ensure!(std::fs::read(&victim).ok().as_deref() == Some(&b"victim"[..]), "existing file outside was overwritten");
    ensure!(!Path::new(&format!("/abs_not_existing_{}", tag)).exists(), "absolute member name was created");
    Ok(())
}

fn verify(target: &Path, reported: &[PathBuf], expected: &[String], by_name: &HashMap<String, Vec<Vec<u8>>>) -> Result<(), String> {
    let ctarget = target.canonicalize().map_err(|e| format!("target dir: {}", e))?;
    let mut rep_names = vec![];
    for p in reported {
        let cp = p.canonicalize().map_err(|e| format!("reported path {} does not exist: {}", p.display(), e))?;
        ensure!(cp.starts_with(&ctarget), "reported path {} lies outside of the target directory {}", p.display(), target.display());
        let rel = p.strip_prefix(target).map_err(|_| format!("reported path {} is not below the target dir", p.display()))?;
        rep_names.push((norm(rel), p.clone()));
    }
    let mut exp_norm: Vec<(String, &String)> = expected.iter().map(|n| (norm(Path::new(n)), n)).collect();
    exp_norm.sort();
    let mut got: Vec<String> = rep_names.iter().map(|x| x.0.clone()).collect();
    got.sort();
    got.dedup();
    let mut want: Vec<String> = exp_norm.iter().map(|x| x.0.clone()).collect();
    want.dedup();
    let optional: Vec<String> = expected.iter().filter(|n| may_be_refused(n)).map(|n| norm(Path::new(n))).collect();
    let got_req: Vec<String> = got.iter().filter(|g| !optional.contains(g)).cloned().collect();
    let want_req: Vec<String> = want.iter().filter(|g| !optional.contains(g)).cloned().collect();
    ensure_eq!(got_req, want_req, "extracted/reported members vs members matching the pattern with names inside the directory (members the file system may refuse left aside: {:?})", optional);
    for (nname, path) in &rep_names {
        let data = std::fs::read(path).map_err(|e| format!("extracted file unreadable {}: {}", path.display(), e))?;
        // any member whose normalised name is this one (duplicates / aliases): content must equal one of them
        let cands: Vec<&Vec<u8>> = exp_norm.iter().filter(|(n, _)| n == nname).flat_map(|(_, raw)| by_name[*raw].iter()).collect();
        ensure!(cands.iter().any(|c| **c == data), "extracted file {} differs from the archive member ({} bytes)", nname, data.len());
    }
    Ok(())
}

pub fn def(tier: Tier) -> PropertyDef {
    let cop = prop_oneof![
        4 => (0u8..40).prop_map(COp::Read),
        3 => (0u8..12).prop_map(COp::ReadOnce),
        3 => any::<u16>().prop_map(COp::Start),
        2 => any::<u16>().prop_map(COp::Cur),
        1 => any::<u16>().prop_map(COp::End),
        1 => (0u16..100).prop_map(COp::Beyond),
        1 => (0u16..100).prop_map(COp::Negative),
    ];
    let chain = (prop_oneof![3 => 0u16..40, 2 => 0u16..200], prop::collection::vec(any::<u16>(), 0..6), prop::collection::vec(cop, 0..40));
    let member = (prop_oneof![14 => 0u8..14, 2 => 14u8..18], 0u8..4, (prop::collection::vec(any::<u8>(), 1..16), prop_oneof![4 => Just(0usize), 20 => 1usize..200, 4 => 1usize..20000, 1 => 70_000usize..200_000]), prop::bool::weighted(0.08)).prop_map(|(name_kind, n, (chunk, len), is_dir)| Member { name_kind, n, content: Fill { len, chunk }, is_dir });
    let zipc = (prop::collection::vec(member, 1..9), any::<bool>(), prop_oneof![2 => Just(vec![]), 2 => prop::collection::vec(any::<u16>(), 1..4)], 0u8..10, 0u8..3).prop_map(|(members, deflate, volumes, glob, call)| ZipCase { members, deflate, volumes, glob, call });
    PropertyDef {
        id: "C20",
        rule: "A: byte string (0..200) split into 1..6 volumes (empty ones included) -> SeekableChain over Cursors vs one Cursor over the concatenation under op sequences read(n) (until n or end), single read, seek(Start|Current|End) with in-range targets (same position, same bytes); out-of-range seeks only: no panic and later in-range seeks behave. B: zip archives (hand-written stored writer allowing duplicate/hostile names; deflate via the zip crate) with 1..8 members: nested, './', '//', spaces, unicode, glob characters, '../', 'd/../../', absolute (existing and not existing), directories, empty members; optionally split into .zip.001.. volumes on disk; calls list_archive_contents, extract_to_dir (with/without filter), extract_archives with 9 glob patterns. Oracle: listing = member names, reported paths exist below the target dir, bytes = member bytes, reported set = matching members with inside names, directory snapshot shows nothing created/changed outside. Non-trivial: A >=2 non-empty volumes and a boundary crossed after a backward seek; B >=2 members and (extract all or a proper subset selected).",
        assumptions: vec!["seeks to targets outside [0,len] are outside the equivalence (std leaves them implementation defined)", "for duplicated member names the extracted content may be either member's bytes", "glob crate trusted for the expected selection"],
        subs: vec![
            sub("chain_vs_cursor", tier.pick(800_000, 10_000_000), chain, chain_check).rates(&[("empty_volume", 0.2), ("ge2_volumes", 0.5), ("boundary_crossed_after_backward_seek", 0.2)]).boxed(),
            sub("zip_extraction", tier.pick(40_000, 600_000), zipc, zip_check).rates(&[("hostile_name", 0.3), ("multi_volume", 0.3), ("proper_subset_selected", 0.15), ("extract_archives", 0.2), ("duplicate_name", 0.1)]).boxed(),
        ],
        workers: 16,
    }
}
