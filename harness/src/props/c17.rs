//! C17 Embedded file transfers are reassembled bit-exactly or not at all
use crate::engine::*;
use crate::model::trace::ecu_name;
use crate::model::wire::Fill;
use crate::{ensure, ensure_eq};
use adlt::dlt::*;
use adlt::plugins::file_transfer::FileTransferPlugin;
use adlt::plugins::plugin::Plugin;
use proptest::prelude::*;
use serde::{Deserialize, Serialize};
use std::collections::BTreeMap;
use std::path::{Path, PathBuf};

#[derive(Clone, Debug, Serialize, Deserialize)]
pub struct Xfer {
    ecu: u8,
    lifecycle: u32,
    name_kind: u8,
    content: Fill,
    pkg_sel: u16,
    pkg_mode: u8,
    int_width: u8,
    pkgnr_signed: bool,
    be: bool,
}
#[derive(Clone, Debug, Serialize, Deserialize)]
pub enum Fault {
    Drop(u16),
    Dup(u16, u16),
    Swap(u16),
    Resize(u16, i8),
    DropFlst,
    DropFlfi,
    /// announcement missing *and* one package (not the last) lost
    DropFlstAnd(u16),
}
#[derive(Clone, Debug, Serialize, Deserialize)]
pub struct Cfg {
    allow_save: bool,
    keep_flda: bool,
    restrict: u8, // 0 none, 1 matching apid, 2 matching apid+ctid, 3 non matching apid
    auto_save: u8, // 0 none, 1 "*", 2 "*.bin", 3 "f0*"
    preexisting: bool,
    /// a dangling symbolic link named like the first transfer's file waits in the auto save directory, pointing outside of it
    #[serde(default)]
    symlink: bool,
}
#[derive(Clone, Debug, Serialize, Deserialize)]
pub struct Case {
    xfers: Vec<Xfer>,
    fault: Option<(u16, Fault)>,
    choices: Vec<u16>,
    cfg: Cfg,
}

fn file_name(kind: u8, i: usize) -> String {
    match kind % 8 {
        0 => format!("f{}.bin", i),
        1 => format!("dir/sub/f{}.txt", i),
        2 => format!("../esc{}.bin", i),
        3 => format!("/abs/path/f{}.bin", i),
        4 => format!("../../../../esc{}.bin", i),
        5 => "same.bin".to_string(),
        6 => format!("a b/f{}.bin", i),
        _ => format!("f{}", i),
    }
}

struct Enc {
    be: bool,
    p: Vec<u8>,
    n: u8,
}
impl Enc {
    fn ti(&mut self, t: u32) {
        self.p.extend_from_slice(&if self.be { t.to_be_bytes() } else { t.to_le_bytes() });
        self.n += 1;
    }
    fn l16(&mut self, l: usize) {
        let l = l as u16;
        self.p.extend_from_slice(&if self.be { l.to_be_bytes() } else { l.to_le_bytes() });
    }
    fn ascii(&mut self, s: &str) {
        self.ti(0x200);
        self.l16(s.len() + 1);
        self.p.extend_from_slice(s.as_bytes());
        self.p.push(0);
    }
    fn utf8(&mut self, s: &str) {
        self.ti(0x8200);
        self.l16(s.len() + 1);
        self.p.extend_from_slice(s.as_bytes());
        self.p.push(0);
    }
    fn uint(&mut self, v: u64, width: u8) {
        match width % 3 {
            0 if v <= u16::MAX as u64 => {
                self.ti(0x40 | 2);
                let v = v as u16;
                self.p.extend_from_slice(&if self.be { v.to_be_bytes() } else { v.to_le_bytes() });
            }
            2 => {
                self.ti(0x40 | 4);
                self.p.extend_from_slice(&if self.be { v.to_be_bytes() } else { v.to_le_bytes() });
            }
            _ => {
                self.ti(0x40 | 3);
                let v = v as u32;
                self.p.extend_from_slice(&if self.be { v.to_be_bytes() } else { v.to_le_bytes() });
            }
        }
    }
    fn sint32(&mut self, v: i32) {
        self.ti(0x20 | 3);
        self.p.extend_from_slice(&if self.be { v.to_be_bytes() } else { v.to_le_bytes() });
    }
    fn raw(&mut self, d: &[u8]) {
        self.ti(0x400);
        self.l16(d.len());
        self.p.extend_from_slice(d);
    }
}

fn mk_msg(x: &Xfer, e: Enc) -> DltMessage {
    DltMessage {
        index: 0,
        reception_time_us: 1_600_000_000_000_000,
        ecu: ecu_name(x.ecu),
        timestamp_dms: 0,
        standard_header: DltStandardHeader { htyp: 0x21 | if x.be { 2 } else { 0 }, mcnt: 0, len: 0 },
        extended_header: Some(DltExtendedHeader { verb_mstp_mtin: 0x41, noar: e.n, apid: DltChar4::from_buf(b"SYS\0"), ctid: DltChar4::from_buf(b"FILE") }),
        payload: e.p,
        payload_text: None,
        lifecycle: x.lifecycle,
    }
}

#[derive(Clone)]
pub enum Tag {
    Flst,
    Flda(usize),
    Flfi,
    Noise,
}

pub struct Built {
    serial: u64,
    name: String,
    content: Vec<u8>,
    pkgs: usize,
    last_shorter: bool,
    pub msgs: Vec<(DltMessage, Tag)>,
    /// expectation: Some(true) must be complete+identical, Some(false) never complete, None: if complete then identical
    expect: Option<bool>,
    faulty: bool,
}

pub fn build_xfer(i: usize, x: &Xfer, fault: Option<&Fault>) -> Built {
    build_xfer_serial(i, x, fault, 1000 + i as u64)
}
pub fn build_xfer_serial(i: usize, x: &Xfer, fault: Option<&Fault>, serial: u64) -> Built {
    // (position dependent bytes on top of the generated pattern: swapped or repeated packages never give the same file)
    let mut content = x.content.bytes();
    for (k, b) in content.iter_mut().enumerate() {
        *b = b.wrapping_add(((k as u32).wrapping_mul(2654435761) >> 24) as u8);
    }
    let len = content.len();
    let mut psize = match x.pkg_mode % 4 {
        0 => 1 + (x.pkg_sel as usize % 64),
        1 => len,
        2 => 1 + ((x.pkg_sel as usize * len) >> 16),
        _ => std::cmp::max(1, len / 2 + 1),
    };
    psize = std::cmp::max(psize, (len + 199) / 200); // at most 200 packages
    psize = std::cmp::max(1, psize);
    let mut pkgs: Vec<Vec<u8>> = content.chunks(psize).map(|c| c.to_vec()).collect();
    if pkgs.is_empty() {
        // an empty file travels as one announced package without data (dlt_user_log_file_packagesCount gives 1 for sizes below the buffer size)
        pkgs.push(vec![]);
        psize = 1 + (x.pkg_sel as usize % 2048);
    }
    let n = pkgs.len();
    let name = file_name(x.name_kind, i);
    let w = x.int_width;
    let mut flst = Enc { be: x.be, p: vec![], n: 0 };
    flst.ascii("FLST");
    flst.uint(serial, w);
    flst.utf8(&name);
    flst.uint(len as u64, w);
    flst.utf8("2024-01-01");
    flst.uint(n as u64, w);
    flst.uint(psize as u64, w);
    flst.ascii("FLST");
    let mut msgs: Vec<(DltMessage, Tag)> = vec![(mk_msg(x, flst), Tag::Flst)];
    let flda = |k: usize, data: &[u8]| {
        let mut e = Enc { be: x.be, p: vec![], n: 0 };
        e.ascii("FLDA");
        e.uint(serial, w);
        if x.pkgnr_signed {
            e.sint32(k as i32)
        } else {
            e.uint(k as u64, 1)
        }
        e.raw(data);
        e.ascii("FLDA");
        (mk_msg(x, e), Tag::Flda(k))
    };
    for (k, p) in pkgs.iter().enumerate() {
        msgs.push(flda(k + 1, p));
    }
    let mut flfi = Enc { be: x.be, p: vec![], n: 0 };
    flfi.ascii("FLFI");
    flfi.uint(serial, w);
    flfi.ascii("FLFI");
    msgs.push((mk_msg(x, flfi), Tag::Flfi));
    let pick = |sel: u16, m: usize| (sel as usize * m) >> 16;
    let mut expect = Some(true);
    if let Some(f) = fault {
        match f {
            Fault::Drop(k) => {
                msgs.remove(1 + pick(*k, n));
                expect = Some(false);
            }
            Fault::Dup(k, off) => {
                let idx = 1 + pick(*k, n);
                let dup = msgs[idx].clone();
                // somewhere after the original (before or after later packages / the end marker)
                let pos = idx + 1 + pick(*off, msgs.len() - idx);
                msgs.insert(std::cmp::min(pos, msgs.len()), dup);
                expect = Some(true);
            }
            Fault::Swap(k) => {
                if n >= 2 {
                    let a = 1 + pick(*k, n - 1);
                    msgs.swap(a, a + 1);
                    expect = Some(false);
                }
            }
            Fault::Resize(k, d) => {
                let ki = pick(*k, n);
                let mut data = pkgs[ki].clone();
                let d = if *d == 0 { 1 } else { *d };
                // (nothing can be cut from an empty package)
                let d = if data.is_empty() { d.saturating_abs() } else { d };
                if d > 0 {
                    data.extend(std::iter::repeat(0x5a).take(d as usize));
                } else {
                    let cut = std::cmp::min(data.len(), (-(d as i32)) as usize);
                    data.truncate(data.len() - cut);
                }
                msgs[1 + ki] = flda(ki + 1, &data);
                expect = Some(false);
            }
            Fault::DropFlst => {
                msgs.remove(0);
                expect = None;
            }
            Fault::DropFlfi => {
                msgs.pop();
                expect = Some(true);
            }
            Fault::DropFlstAnd(k) => {
                if n >= 2 {
                    msgs.remove(1 + pick(*k, n - 1));
                    expect = Some(false);
                } else {
                    expect = None;
                }
                msgs.remove(0);
            }
        }
    }
    Built { serial, name, content, pkgs: n, last_shorter: n >= 2 && pkgs[n - 1].len() < psize, msgs, expect, faulty: fault.is_some() }
}

fn snapshot(dir: &Path) -> BTreeMap<PathBuf, Vec<u8>> {
    let mut m = BTreeMap::new();
    let mut stack = vec![dir.to_path_buf()];
    while let Some(d) = stack.pop() {
        if let Ok(rd) = std::fs::read_dir(&d) {
            for e in rd.flatten() {
                let p = e.path();
                if p.is_dir() {
                    m.insert(p.clone(), vec![]);
                    stack.push(p);
                } else {
                    m.insert(p.clone(), std::fs::read(&p).unwrap_or_default());
                }
            }
        }
    }
    m
}

static CASE_NR: std::sync::atomic::AtomicUsize = std::sync::atomic::AtomicUsize::new(0);

fn check(c: &Case, rep: &mut Rep) -> Result<(), String> {
    // sandbox: <work>/c17_<pid>_<n>/outer/{auto,...}
    let root = work_dir().join(format!("c17_{}_{}", std::process::id(), CASE_NR.fetch_add(1, std::sync::atomic::Ordering::Relaxed)));
    let _ = std::fs::remove_dir_all(&root);
    // (nested, so that names with several ".." parts stay inside what is watched)
    let outer = root.join("l1/l2/l3/l4/outer");
    let auto = outer.join("auto");
    std::fs::create_dir_all(&auto).map_err(|e| e.to_string())?;
    let r = check_in(c, rep, &outer, &auto);
    let _ = std::fs::remove_dir_all(&root);
    r
}

fn check_in(c: &Case, rep: &mut Rep, outer: &Path, auto: &Path) -> Result<(), String> {
    let fault_idx = c.fault.as_ref().map(|(s, _)| (*s as usize * c.xfers.len()) >> 16);
    // transfers are told apart by (ECU, lifecycle, serial): with pairwise different (ECU, lifecycle) the serials may repeat
    let pairs: std::collections::HashSet<(u8, u32)> = c.xfers.iter().map(|x| (x.ecu, x.lifecycle)).collect();
    let collide = c.choices.len() % 2 == 1 && pairs.len() == c.xfers.len() && c.xfers.len() >= 2;
    rep.label_if(collide, "same_serial_on_different_ecu_or_lifecycle");
    let built: Vec<Built> = c.xfers.iter().enumerate().map(|(i, x)| build_xfer_serial(i, x, if fault_idx == Some(i) { c.fault.as_ref().map(|f| &f.1) } else { None }, if collide { 1000 + (i as u64 % 2) } else { 1000 + i as u64 })).collect();
    // interleave with each other and with unrelated traffic
    let mut seqs: Vec<Vec<(usize, DltMessage, Tag)>> = built.iter().enumerate().map(|(i, b)| b.msgs.iter().cloned().map(|(m, t)| (i, m, t)).collect()).collect();
    let noise: Vec<(usize, DltMessage, Tag)> = (0..(c.choices.len() % 7))
        .map(|k| {
            let mut e = Enc { be: false, p: vec![], n: 0 };
            e.utf8(&format!("unrelated {}", k));
            (usize::MAX, mk_msg(&c.xfers[0], e), Tag::Noise)
        })
        .collect();
    seqs.push(noise);
    let stream = crate::model::trace::interleave(&seqs, &c.choices);

    let mut cfg = serde_json::json!({"name":"FileTransfer","allowSave":c.cfg.allow_save,"keepFLDA":c.cfg.keep_flda});
    match c.cfg.restrict % 4 {
        1 => cfg["apid"] = "SYS".into(),
        2 => {
            cfg["apid"] = "SYS".into();
            cfg["ctid"] = "FILE".into();
        }
        3 => cfg["apid"] = "OTHR".into(),
        _ => {}
    }
    let glob = match c.cfg.auto_save % 4 {
        1 => Some("*"),
        2 => Some("*.bin"),
        3 => Some("f0*"),
        _ => None,
    };
    if let Some(g) = glob {
        cfg["autoSavePath"] = auto.to_str().unwrap().into();
        cfg["autoSaveGlob"] = g.into();
    }
    let pre_name = auto.join("same.bin");
    if c.cfg.preexisting {
        std::fs::write(&pre_name, b"old content").map_err(|e| e.to_string())?;
    }
    if c.cfg.symlink && glob.is_some() {
        if let Some(base) = Path::new(&built[0].name).file_name() {
            let link = auto.join(base);
            if std::fs::symlink_metadata(&link).is_err() {
                std::os::unix::fs::symlink("../outside_of_auto.bin", &link).map_err(|e| e.to_string())?;
                rep.label("dangling_symlink_in_auto_save_dir");
            }
        }
    }
    rep.label_if(built.iter().any(|b| b.content.is_empty()), "empty_file");
    let watched = outer.ancestors().nth(5).unwrap().to_path_buf();
    let before = snapshot(&watched);
    let mut plugin = FileTransferPlugin::from_json(cfg.as_object().unwrap()).map_err(|e| format!("plugin config refused: {}", e))?;
    let sees = c.cfg.restrict % 4 != 3;
    for (i, (_xi, m, tag)) in stream.iter().enumerate() {
        let mut m2 = m.clone();
        m2.index = i as u32;
        let orig = m2.clone();
        let fwd = plugin.process_msg(&mut m2);
        // only data packages may be held back, and only when so configured (whether they are is C19's matter)
        let may_drop = matches!(tag, Tag::Flda(_)) && !c.cfg.keep_flda && sees;
        ensure!(fwd || may_drop, "message {} ({}) not forwarded", i, match tag { Tag::Flst => "FLST", Tag::Flda(_) => "FLDA", Tag::Flfi => "FLFI", Tag::Noise => "other" });
        ensure!(m2 == orig, "file transfer plugin altered message {}", i);
    }
    plugin.sync_all();
    let state = plugin.state();
    let state = state.read().map_err(|_| "state poisoned")?;
    let all_items: Vec<serde_json::Value> = state.value["treeItems"].as_array().cloned().unwrap_or_default();
    let sorted_children: Vec<serde_json::Value> = all_items.iter().filter(|i| i["label"] == "Sorted by name").flat_map(|i| i["children"].as_array().cloned().unwrap_or_default()).collect();
    let has_sorted_view = all_items.iter().any(|i| i["label"] == "Sorted by name");
    let items: Vec<serde_json::Value> = all_items.into_iter().filter(|i| i["label"] != "Sorted by name").collect();
    let multi = built.len() >= 2;
    rep.label_if(multi, "ge2_transfers");
    rep.label_if(c.fault.is_some(), "fault");
    if let Some((_, f)) = &c.fault {
        rep.label(match f { Fault::Drop(_) => "fault_drop", Fault::Dup(..) => "fault_dup", Fault::Swap(_) => "fault_swap", Fault::Resize(..) => "fault_resize", Fault::DropFlst => "fault_drop_flst", Fault::DropFlfi => "fault_drop_flfi", Fault::DropFlstAnd(_) => "fault_drop_flst_and_package" });
    }
    rep.label_if(built.iter().any(|b| b.last_shorter), "last_package_shorter");
    rep.label_if(glob.is_some(), "auto_save");
    rep.label_if(!sees, "plugin_filter_excludes");
    rep.nontrivial = sees && (built.iter().any(|b| b.last_shorter) || multi || c.fault.is_some());
    if !sees {
        ensure!(items.is_empty(), "plugin restricted to another APID lists transfers");
    }
    let mut expected_files: Vec<(String, Vec<u8>, usize, bool)> = vec![]; // basename, content, completion position in the stream, optional
    for (bi, b) in built.iter().enumerate() {
        if !sees {
            break;
        }
        let x = &c.xfers[bi];
        let needle = format!("serial #{},", b.serial);
        let mine: Vec<&serde_json::Value> = items.iter().filter(|i| i["tooltip"].as_str().map_or(false, |t| t.contains(&needle) && t.starts_with(&format!("{}, LC id={},", ecu_name(x.ecu), x.lifecycle)))).collect();
        ensure!(mine.len() <= 1, "transfer {} listed {} times", b.serial, mine.len());
        let complete = mine.first().map_or(false, |i| i["iconPath"] == "file");
        match b.expect {
            Some(true) => ensure!(complete, "transfer serial {} ({} packages, fault {:?}) arrived completely and in order but is not reported complete: {:?}", b.serial, b.pkgs, if b.faulty { c.fault.as_ref() } else { None }, mine.first().map(|i| i["label"].clone())),
            Some(false) => ensure!(!complete, "transfer serial {} with fault {:?} is reported complete", b.serial, c.fault),
            None => {}
        }
        let idx = mine.first().and_then(|i| i["cmdCtx"]["save"]["idx"].as_u64());
        if complete {
            let item = mine[0];
            if c.cfg.allow_save {
                ensure!(item["contextValue"] == "canSave" && idx.is_some(), "complete transfer {} cannot be saved: {:?}", b.serial, item);
            }
        } else {
            ensure!(mine.first().map_or(true, |i| i["cmdCtx"].is_null() && i["contextValue"].is_null()), "incomplete transfer offers save");
        }
        // the same transfer is listed a second time below "Sorted by name": same state, and its own save context must work as well
        let sorted_mine: Vec<&serde_json::Value> = sorted_children.iter().filter(|i| i["tooltip"].as_str().map_or(false, |t| t.contains(&needle) && t.starts_with(&format!("{}, LC id={},", ecu_name(x.ecu), x.lifecycle)))).collect();
        if has_sorted_view {
            ensure_eq!(sorted_mine.len(), mine.len(), "transfer {} listed {} times by occurrence but {} times in the sorted view", b.serial, mine.len(), sorted_mine.len());
        }
        for sm in &sorted_mine {
            ensure!((sm["iconPath"] == "file") == complete, "sorted view and occurrence view disagree on the completeness of transfer {}", b.serial);
        }
        // try to save through every save context offered for this transfer (or a guessed index for incomplete ones)
        let mut idxs: Vec<u64> = mine.iter().chain(sorted_mine.iter()).filter_map(|i| i["cmdCtx"]["save"]["idx"].as_u64()).collect();
        if idxs.is_empty() {
            if let Some(g) = mine.first().and_then(|it| items.iter().position(|i| std::ptr::eq(i, *it)).map(|p| p as u64)) {
                idxs.push(g);
            }
        }
        if complete && c.cfg.allow_save {
            ensure_eq!(idxs.len(), if has_sorted_view { 2 } else { 1 }, "save contexts offered for complete transfer {}", b.serial);
        }
        for (k, i) in idxs.iter().enumerate() {
            if let Some(apply) = state.apply_command {
                let target = outer.join(format!("saved_{}_{}.out", bi, k));
                let params = serde_json::json!({"saveAs": target.to_str().unwrap()});
                let ctx = serde_json::json!({"save":{"idx":i}});
                let ok = apply(&state.internal_data, "save", params.as_object(), ctx.as_object());
                if complete && c.cfg.allow_save {
                    ensure!(ok, "save command failed for complete transfer {} (save context #{} idx {})", b.serial, k, i);
                }
                if ok {
                    let saved = std::fs::read(&target).map_err(|e| format!("saved file unreadable: {}", e))?;
                    ensure!(complete, "save command wrote data for a transfer that is not complete (serial {})", b.serial);
                    ensure!(saved == b.content, "file saved through save context #{} (idx {}) of transfer {} '{}' differs from the original ({} vs {} bytes)", k, i, b.serial, b.name, saved.len(), b.content.len());
                }
                let _ = std::fs::remove_file(&target);
            }
        }
        // auto save expectation
        if let (Some(g), true) = (glob, complete) {
            let listed_name = if matches!((&c.fault, fault_idx), (Some((_, Fault::DropFlst | Fault::DropFlstAnd(_))), Some(fi)) if fi == bi) { "<missing_flst>".to_string() } else { b.name.clone() };
            if glob::Pattern::new(g).unwrap().matches(&listed_name) {
                let base = Path::new(&listed_name).file_name().map(|s| s.to_string_lossy().into_owned());
                if let Some(base) = base {
                    let missing_flst = listed_name == "<missing_flst>";
                    // position in the stream where the transfer completes
                    let pos = stream
                        .iter()
                        .position(|(xi, _, t)| *xi == bi && if missing_flst { matches!(t, Tag::Flfi) } else { matches!(t, Tag::Flda(k) if *k == b.pkgs) })
                        .unwrap_or(usize::MAX);
                    expected_files.push((base, b.content.clone(), pos, missing_flst));
                }
            }
        }
    }
    drop(state);
    // file system effects
    let after = snapshot(&watched);
    for (p, data) in &after {
        match before.get(p) {
            Some(old) => ensure!(old == data, "existing file {} was modified", p.display()),
            None => {
                ensure!(p.parent() == Some(auto), "file created outside of the auto save directory: {}", p.display());
                let base = p.file_name().unwrap().to_string_lossy().into_owned();
                // the transfer that completed first creates the file, later ones must not overwrite it
                match expected_files.iter().filter(|e| e.0 == base).min_by_key(|e| e.2) {
                    Some((_, content, _, _)) => ensure!(data == content, "auto saved file {} differs from the content of the first completed transfer of that name", base),
                    None => return Err(format!("unexpected auto saved file {}", base)),
                }
            }
        }
    }
    for (base, _, _, optional) in &expected_files {
        let p = auto.join(base);
        ensure!(*optional || after.contains_key(&p), "complete transfer matching the glob was not auto saved as {}", base);
    }
    if c.cfg.preexisting {
        ensure!(std::fs::read(&pre_name).ok().as_deref() == Some(&b"old content"[..]), "pre-existing file was overwritten");
    }
    for p in before.keys() {
        ensure!(after.contains_key(p), "file {} disappeared", p.display());
    }
    Ok(())
}

pub fn xfer_strategy() -> impl Strategy<Value = Xfer> {
    (
        (0u8..3, 1u32..4, 0u8..8),
        (prop::collection::vec(any::<u8>(), 1..24), prop_oneof![1 => Just(0usize), 8 => 1usize..40, 6 => 1usize..2000, 2 => 1usize..20000]),
        (any::<u16>(), 0u8..4, 0u8..3, any::<bool>(), any::<bool>()),
    )
        .prop_map(|((ecu, lifecycle, name_kind), (chunk, len), (pkg_sel, pkg_mode, int_width, pkgnr_signed, be))| Xfer { ecu, lifecycle, name_kind, content: Fill { len, chunk }, pkg_sel, pkg_mode, int_width, pkgnr_signed, be })
}

pub fn def(tier: Tier) -> PropertyDef {
    let xfer = xfer_strategy();
    let fault = prop_oneof![
        any::<u16>().prop_map(Fault::Drop),
        (any::<u16>(), any::<u16>()).prop_map(|(a, b)| Fault::Dup(a, b)),
        any::<u16>().prop_map(Fault::Swap),
        (any::<u16>(), prop_oneof![Just(1i8), Just(-1i8), -3i8..4]).prop_map(|(a, b)| Fault::Resize(a, b)),
        Just(Fault::DropFlst),
        Just(Fault::DropFlfi),
        any::<u16>().prop_map(Fault::DropFlstAnd),
    ];
    let cfg = (prop::bool::weighted(0.7), any::<bool>(), prop_oneof![4 => Just(0u8), 2 => Just(1u8), 2 => Just(2u8), 1 => Just(3u8)], 0u8..4, any::<bool>(), prop::bool::weighted(0.15)).prop_map(|(allow_save, keep_flda, restrict, auto_save, preexisting, symlink)| Cfg { allow_save, keep_flda, restrict, auto_save, preexisting, symlink });
    let case = (prop::collection::vec(xfer, 1..5), prop::option::weighted(0.6, (any::<u16>(), fault)), prop::collection::vec(any::<u16>(), 0..24), cfg).prop_map(|(xfers, fault, choices, cfg)| Case { xfers, fault, choices, cfg });
    PropertyDef {
        id: "C17",
        rule: "1..4 transfers {ecu, lifecycle, file name (plain, with directories, ../, absolute, duplicate, spaces), content 0..20000 bytes (an empty file is one announced package without data), package size (1..64, = size, fraction, half+1), integer widths 16/32/64, signed/unsigned package numbers, both byte orders} as FLST/FLDA/FLFI verbose messages, interleaved with each other and unrelated traffic; at most one fault (drop/duplicate/swap/resize a package, drop FLST, drop FLFI); plugin configs allowSave, keepFLDA, apid/ctid restriction, auto save (globs) with pre-existing file or a dangling symbolic link of the expected name pointing outside. Oracle: plugin state tree (complete iff all packages arrived in order), save command and auto save produce byte-identical files, faults never complete, directory snapshots (only autoSavePath/<basename> appears, nothing overwritten). Non-trivial: last package shorter, >=2 interleaved transfers or a fault.",
        assumptions: vec!["a transfer whose announcement is missing may or may not be completed; if it is, its content must be identical", "glob crate trusted for the expected auto save selection"],
        subs: vec![sub("transfers", tier.pick(40_000, 800_000), case, check)
            .rates(&[("ge2_transfers", 0.4), ("fault", 0.4), ("fault_dup", 0.03), ("fault_resize", 0.03), ("fault_swap", 0.03), ("last_package_shorter", 0.2), ("auto_save", 0.4), ("empty_file", 0.05), ("dangling_symlink_in_auto_save_dir", 0.05)])
            .boxed()],
        workers: 16,
    }
}
