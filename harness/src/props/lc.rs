//! C05, C06, C07, C08: lifecycle detection
use crate::engine::*;
use crate::model::trace::*;
use crate::{ensure, ensure_eq};
use adlt::dlt::DltMessage;
use proptest::prelude::*;
use std::collections::HashMap;

type Messy = (Vec<Ev>, u16);

fn messy(n_ecus: u8, max: usize) -> impl Strategy<Value = Messy> {
    (prop::collection::vec(ev(n_ecus), 1..max), any::<u16>())
}

/// the case's messages: 1..3 ECUs, message indices with a stride (the detector refreshes its table every 100000
/// indices: with stride 1 only the final refresh would ever run)
fn messy_msgs(v: &Messy) -> Vec<DltMessage> {
    let n_ecus = 1 + (v.1 / 16) % 3;
    // (host clock jumps back to 1970 only in a quarter of the cases: they collapse most of the lifecycle structure)
    let allow_1970 = (v.1 / 64) % 4 == 0;
    let evs: Vec<Ev> = v.0.iter().map(|e| Ev { ecu: e.ecu % n_ecus as u8, tsmode: if e.tsmode == 10 && !allow_1970 { 0 } else { e.tsmode }, ..e.clone() }).collect();
    let mut msgs = build_messy(&evs);
    let stride = [1u32, 30_000, 150_000][(v.1 / 4) as usize % 3];
    for m in msgs.iter_mut() {
        m.index *= stride;
    }
    // message indices close to the end of the u32 range (files are numbered from a start index)
    if (v.1 / 256) % 4 == 1 && stride == 1 {
        let n = msgs.len();
        for (i, m) in msgs.iter_mut().enumerate() {
            if i >= n / 2 {
                m.index = u32::MAX - 60_000 - n as u32 + i as u32;
            }
        }
    }
    msgs
}

fn same_except_lc(a: &DltMessage, b: &DltMessage) -> bool {
    a.index == b.index
        && a.reception_time_us == b.reception_time_us
        && a.ecu == b.ecu
        && a.timestamp_dms == b.timestamp_dms
        && a.standard_header == b.standard_header
        && a.extended_header == b.extended_header
        && a.payload == b.payload
        && a.payload_text == b.payload_text
}

fn common_labels(res: &DetOut, rep: &mut Rep) -> (usize, bool) {
    let mut per_ecu: HashMap<u32, usize> = HashMap::new();
    for r in &res.table {
        *per_ecu.entry(r.ecu.as_u32le()).or_default() += 1;
    }
    let max_per_ecu = per_ecu.values().copied().max().unwrap_or(0);
    let ids_in_out: std::collections::HashSet<u32> = res.out.iter().map(|m| m.lifecycle).collect();
    let merged = res.ids_allocated as usize > ids_in_out.len();
    rep.label_if(merged, "merge_happened");
    rep.label_if(res.table.iter().any(|r| r.is_resume), "has_resume");
    rep.label_if(res.table.len() > 20, "gt20_lifecycles");
    rep.label_if(max_per_ecu >= 2, "ge2_lifecycles_one_ecu");
    (max_per_ecu, merged)
}

// ----------------------------------------------------------------------------- C05
fn c05_invariants(input: &[DltMessage], res: &DetOut) -> Result<(), String> {
    ensure_eq!(res.out.len(), input.len(), "number of forwarded messages");
    for (i, (a, b)) in input.iter().zip(res.out.iter()).enumerate() {
        ensure!(same_except_lc(a, b), "forwarded message #{} differs from input #{} (order/duplicate/alteration): in idx {} out idx {}", i, i, a.index, b.index);
        ensure!(b.lifecycle != 0, "message #{} forwarded with lifecycle id 0", i);
        match res.table.iter().find(|r| r.id == b.lifecycle) {
            None => return Err(format!("message #{} carries lifecycle {} which is not in the final table", i, b.lifecycle)),
            Some(r) => ensure!(!r.empty_bag && r.ecu == b.ecu, "message #{} of ecu {:?} carries lifecycle {} of ecu {:?}", i, b.ecu, b.lifecycle, r.ecu),
        }
    }
    Ok(())
}

fn c05_check(v: &Messy, rep: &mut Rep) -> Result<(), String> {
    let msgs = messy_msgs(v);
    let paced = v.1 % 4 == 0;
    let (res, _r, _w) = run_detector(msgs.clone(), &DetOpts { cross_thread: false, paced, want_listing: false }, None);
    let (max_per_ecu, merged) = common_labels(&res, rep);
    let held_back = res.fed_at_delivery.iter().enumerate().any(|(i, f)| *f > i + 1);
    rep.label_if(paced, "paced");
    rep.label_if(held_back, "held_back_observed");
    rep.nontrivial = max_per_ecu >= 2 && (merged || held_back);
    c05_invariants(&msgs, &res)
}

/// pre-populated table: detector run on a prefix, handle reused for the rest
fn c05_prepop(v: &(Vec<Ev>, u16), rep: &mut Rep) -> Result<(), String> {
    let msgs = build_messy(&v.0);
    let cut = (v.1 as usize * (msgs.len() + 1)) >> 16;
    let (a, b) = msgs.split_at(cut);
    let (res1, r, w) = run_detector(a.to_vec(), &DetOpts { cross_thread: false, paced: false, want_listing: false }, None);
    ensure_eq!(res1.out.len(), a.len(), "prefix run: number of forwarded messages");
    rep.label_if(!res1.table.is_empty(), "prepopulated_table");
    rep.label_if(res1.table.len() >= 2, "prepopulated_ge2");
    let (res2, _r, _w) = run_detector(b.to_vec(), &DetOpts { cross_thread: false, paced: false, want_listing: false }, Some((r, w)));
    rep.nontrivial = res1.table.len() >= 2 && !b.is_empty();
    // (C06 for the pre-populated table: the lifecycle of every delivered message is visible at delivery)
    for (i, m) in res2.out.iter().enumerate() {
        ensure!(res2.vis_same[i], "pre-populated table: message #{} (idx {}) delivered with lifecycle {} not visible at delivery time", i, m.index, m.lifecycle);
    }
    c05_invariants(b, &res2)
}

// ----------------------------------------------------------------------------- C06
fn c06_check(v: &Messy, rep: &mut Rep) -> Result<(), String> {
    let msgs = messy_msgs(v);
    let paced = v.1 % 2 == 0;
    let (res, _r, _w) = run_detector(msgs.clone(), &DetOpts { cross_thread: true, paced, want_listing: false }, None);
    let (max_per_ecu, merged) = common_labels(&res, rep);
    let held_back = res.fed_at_delivery.iter().enumerate().any(|(i, f)| *f > i + 1);
    rep.label_if(held_back, "held_back_observed");
    rep.label_if(paced, "paced");
    rep.nontrivial = max_per_ecu >= 2 || merged || held_back;
    for (i, m) in res.out.iter().enumerate() {
        ensure!(res.vis_same[i], "message #{} (idx {}, ecu {:?}) delivered with lifecycle {} not (or with another ecu) visible in the table at delivery time (same thread)", i, m.index, m.ecu, m.lifecycle);
        ensure!(res.vis_cross[i], "message #{} (idx {}, ecu {:?}) delivered with lifecycle {} not visible to a reader in another thread at delivery time", i, m.index, m.ecu, m.lifecycle);
    }
    ensure_eq!(res.out.len(), msgs.len(), "number of forwarded messages");
    Ok(())
}

/// real consumers: time sorter and export plugin (panics on unknown lifecycle) behind a bounded channel
fn c06_consumers(v: &Messy, rep: &mut Rep) -> Result<(), String> {
    use std::sync::mpsc::sync_channel;
    let msgs = messy_msgs(v);
    let n = msgs.len();
    let cap = [0usize, 1, 8][(v.1 % 3) as usize];
    let (lcs_r, lcs_w) = new_lc_map();
    let (tx, rx) = sync_channel(n + 1);
    for m in msgs {
        tx.send(m).unwrap();
    }
    drop(tx);
    let (tx2, rx2) = sync_channel::<DltMessage>(cap);
    let det = std::thread::spawn(move || adlt::lifecycle::parse_lifecycles_buffered_from_stream(lcs_w, rx, &|m| tx2.send(m)));
    // real consumer: the export plugin with a lifecycle selection resolves every new lifecycle id (and panics on an unknown one)
    let with_export = v.1 % 4 == 1;
    // real consumer 2: the time sorter reads the start time of every message's lifecycle from the shared table
    if v.1 % 4 == 2 {
        let lr = lcs_r.clone();
        let out = std::cell::RefCell::new(vec![]);
        let r = std::panic::catch_unwind(std::panic::AssertUnwindSafe(|| adlt::utils::buffer_sort_messages(rx2, &|m| { out.borrow_mut().push(m); Ok(()) }, &lr, 3, 2_000_000)));
        let _w = det.join().map_err(|_| "detector thread panicked".to_string())?;
        ensure!(matches!(r, Ok(Ok(()))), "time sorter behind the detector panicked or failed");
        let out = out.into_inner();
        ensure_eq!(out.len(), n, "time sorter behind the detector: number of messages");
        rep.label("sorter_as_consumer");
        rep.nontrivial = out.iter().map(|m| m.lifecycle).collect::<std::collections::HashSet<_>>().len() >= 2;
        return Ok(());
    }
    let sbx = crate::props::c14::Sandbox::new("c06exp");
    let cfg = serde_json::json!({"name":"Export","exportFileName":sbx.path("e.dlt").to_str().unwrap(),"filters":[],"lifecyclesToKeep":[{"ecu":"ECUA","startTime":1,"endTime":2}]});
    let mut export = adlt::plugins::export::ExportPlugin::from_json(cfg.as_object().unwrap()).map_err(|e| format!("export plugin: {}", e))?;
    {
        use adlt::plugins::plugin::Plugin;
        export.set_lifecycle_read_handle(&lcs_r);
    }
    // consumer: looks up the lifecycle of every message on receipt
    let mut bad = None;
    let mut got = 0;
    let mut seen: std::collections::HashSet<u32> = Default::default();
    for m in rx2 {
        got += 1;
        seen.insert(m.lifecycle);
        let ok = matches!(lcs_r.get_one(&m.lifecycle), Some(l) if l.ecu == m.ecu);
        if !ok && bad.is_none() {
            bad = Some((m.index, m.lifecycle));
        }
        if ok && with_export {
            use adlt::plugins::plugin::Plugin;
            let mut m2 = m.clone();
            let r = std::panic::catch_unwind(std::panic::AssertUnwindSafe(|| export.process_msg(&mut m2)));
            if r.is_err() && bad.is_none() {
                bad = Some((m.index, m.lifecycle));
            }
        }
    }
    let _w = det.join().map_err(|_| "detector thread panicked".to_string())?;
    rep.label_if(seen.len() >= 2, "ge2_lifecycles");
    rep.nontrivial = seen.len() >= 2;
    ensure_eq!(got, n, "consumer received all messages");
    if let Some((idx, lc)) = bad {
        return Err(format!("consumer thread received message idx {} whose lifecycle {} was not visible (channel capacity {})", idx, lc, cap));
    }
    Ok(())
}

// ----------------------------------------------------------------------------- C07
fn c07_invariants(res: &DetOut, n: usize) -> Result<(), String> {
    let mut hist: HashMap<u32, u32> = HashMap::new();
    for m in &res.out {
        *hist.entry(m.lifecycle).or_insert(0) += 1;
    }
    let mut sum = 0u64;
    for r in &res.table {
        ensure!(!r.empty_bag, "table lists lifecycle {} without a value (withdrawn entry still listed)", r.id);
        ensure!(r.nr_msgs != 0, "table lists invalidated (merged) lifecycle {}", r.id);
        match hist.get(&r.id) {
            None => return Err(format!("lifecycle {} ({} msgs) is listed but no delivered message refers to it", r.id, r.nr_msgs)),
            Some(c) => ensure_eq!(*c, r.nr_msgs, "message count of lifecycle {} (delivered vs table)", r.id),
        }
        sum += r.nr_msgs as u64;
    }
    for id in hist.keys() {
        ensure!(res.table.iter().any(|r| r.id == *id), "delivered messages refer to lifecycle {} which is not listed", id);
    }
    ensure_eq!(sum, n as u64, "sum of message counts");
    // listing
    ensure!(!res.listing_panic, "the lifecycle listing (get_sorted_lifecycles_as_vec) panicked");
    let listing = res.listing.as_ref().ok_or("no listing")?;
    let mut a = listing.clone();
    a.sort();
    let mut b: Vec<u32> = res.table.iter().map(|r| r.id).collect();
    b.sort();
    ensure!(a == b, "listing {:?} is not a permutation of the table {:?}", listing, b);
    let pos = |id: u32| listing.iter().position(|x| *x == id);
    for r in res.table.iter().filter(|r| r.is_resume) {
        if let Some(o) = r.resume_origin {
            if let (Some(pr), Some(po)) = (pos(r.id), pos(o)) {
                ensure!(po < pr, "resumed lifecycle {} is listed before the lifecycle {} it resumes (listing {:?})", r.id, o, listing);
            }
        }
    }
    if !res.table.iter().any(|r| r.is_resume) {
        for w in listing.windows(2) {
            let (x, y) = (res.table.iter().find(|r| r.id == w[0]).unwrap(), res.table.iter().find(|r| r.id == w[1]).unwrap());
            ensure!(x.start <= y.start, "listing not ordered by start time: {} ({}) before {} ({})", x.id, x.start, y.id, y.start);
        }
    }
    Ok(())
}

fn c07_check(v: &Messy, rep: &mut Rep) -> Result<(), String> {
    let msgs = messy_msgs(v);
    rep.label_if(msgs.last().map_or(0, |m| m.index) > 100_000, "periodic_refresh_reached");
    rep.label_if(msgs.iter().all(|m| m.ecu == msgs[0].ecu), "single_ecu");
    let n = msgs.len();
    let (res, _r, _w) = run_detector(msgs, &DetOpts { cross_thread: false, paced: false, want_listing: true }, None);
    let (_max_per_ecu, merged) = common_labels(&res, rep);
    let crossing = res.table.iter().any(|r| match r.resume_origin {
        Some(o) => res.table.iter().any(|x| x.id == o && r.start <= x.start),
        None => false,
    });
    rep.label_if(crossing, "resume_start_le_origin_start");
    rep.nontrivial = res.table.len() >= 3 && (merged || res.table.iter().any(|r| r.is_resume));
    ensure_eq!(res.out.len(), n, "number of forwarded messages");
    c07_invariants(&res, n)
}

// ----------------------------------------------------------------------------- C08
type Clean = (Vec<EcuTrace>, Vec<u16>);
fn clean(max_ecus: usize, max_boots: usize, max_msgs: usize) -> impl Strategy<Value = Clean> {
    (1..=max_ecus)
        .prop_flat_map(move |n| {
            let ecus: Vec<_> = (0..n).map(|e| ecu_trace(e as u8, max_boots, max_msgs, false)).collect();
            (ecus, prop::collection::vec(any::<u16>(), 0..40))
        })
}

fn c08_check(v: &Clean, rep: &mut Rep) -> Result<(), String> {
    let (ecus, choices) = v;
    let mut seqs = vec![];
    let mut boots = vec![];
    for e in ecus {
        let (m, b) = e.build();
        seqs.push(m);
        boots.push(b);
    }
    let stream = interleave(&seqs, choices);
    // (indices grow by more than one per message when a file is filtered or several files are numbered in one go; the
    // detector publishes its table every 100 000 indices, which a short trace reaches with a stride only)
    let mut stride = [1u32, 1, 1, 1000, 30_011, 100_003][choices.len() % 6];
    if stream.len() as u64 * stride as u64 >= u32::MAX as u64 {
        stride = 1;
    }
    let msgs: Vec<DltMessage> = stream.iter().enumerate().map(|(i, (m, _))| { let mut m = m.clone(); m.index = i as u32 * stride; m }).collect();
    let n = msgs.len();
    rep.label_if(msgs.last().map_or(0, |m| m.index) > 100_000, "periodic_refresh_reached");
    let (res, _r, _w) = run_detector(msgs, &DetOpts { cross_thread: false, paced: false, want_listing: false }, None);
    let multi_boot = ecus.iter().any(|e| e.boots.len() >= 2);
    let first_zero = ecus.iter().any(|e| e.boots.iter().any(|b| b.msgs[0].ts_dms == 0));
    let unsorted = ecus.iter().any(|e| e.boots.iter().any(|b| b.msgs.windows(2).any(|w| w[0].ts_dms > w[1].ts_dms)));
    rep.label_if(multi_boot, "ge2_boots");
    rep.label_if(ecus.len() >= 2, "ge2_ecus");
    rep.label_if(first_zero, "first_timestamp_zero");
    rep.label_if(unsorted, "unsorted_within_boot");
    rep.label_if(res.table.iter().any(|r| r.is_resume), "resume_flagged");
    rep.label_if(ecus.iter().any(|e| e.boots.iter().any(|b| b.msgs.len() <= 2)), "tiny_boot");
    rep.label_if(ecus.iter().any(|e| e.boots.iter().any(|b| b.msgs.iter().any(|m| m.ts_dms as u64 * 100 > u32::MAX as u64))), "uptime_gt_2pow32_us");
    rep.nontrivial = (multi_boot && ecus.len() >= 2) || first_zero || unsorted;
    ensure_eq!(res.out.len(), n, "number of forwarded messages");
    // map (ecu, boot) -> id
    let mut idmap: HashMap<(u8, usize), u32> = HashMap::new();
    let mut rev: HashMap<u32, (u8, usize)> = HashMap::new();
    for (m, (_, t)) in res.out.iter().zip(stream.iter()) {
        let key = (t.ecu, t.boot);
        match idmap.get(&key) {
            Some(id) => ensure!(*id == m.lifecycle, "boot {:?} split into lifecycles {} and {} (msg idx {})", key, id, m.lifecycle, m.index),
            None => {
                if let Some(other) = rev.get(&m.lifecycle) {
                    return Err(format!("boots {:?} and {:?} merged into lifecycle {}", other, key, m.lifecycle));
                }
                idmap.insert(key, m.lifecycle);
                rev.insert(m.lifecycle, key);
            }
        }
    }
    let total_boots: usize = boots.iter().map(|b| b.len()).sum();
    ensure_eq!(res.table.len(), total_boots, "number of lifecycles vs boots");
    for (key, id) in &idmap {
        let bt = &boots[key.0 as usize][key.1];
        let row = res.table.iter().find(|r| r.id == *id).ok_or(format!("lifecycle {} of boot {:?} not in table", id, key))?;
        ensure_eq!(row.start, bt.start, "start time of boot {:?}", key);
        ensure_eq!(row.end, bt.start + bt.max_ts_us, "end time of boot {:?}", key);
        ensure_eq!(row.nr_msgs, bt.n, "message count of boot {:?}", key);
        ensure!(row.ecu == ecu_name(key.0), "ecu of lifecycle {}", id);
    }
    Ok(())
}

// ----------------------------------------------------------------------------- real traces from the repository
#[derive(Clone, Debug, serde::Serialize, serde::Deserialize)]
pub enum TOp {
    Drop(u16, u16),
    Swap(u16, u16, u16),
    ShiftTime(u16, u16, i32),
    ZeroTs(u16, u16),
    OtherEcu(u16, u16),
}
type RepoCase = (u16, u16, u16, Vec<TOp>);

fn repo_pool() -> &'static Vec<Vec<DltMessage>> {
    static P: std::sync::OnceLock<Vec<Vec<DltMessage>>> = std::sync::OnceLock::new();
    P.get_or_init(|| {
        let mut v = vec![];
        let mut names: Vec<_> = std::fs::read_dir(crate::chain::repo_tests()).map(|rd| rd.flatten().map(|e| e.path()).collect()).unwrap_or_default();
        names.sort();
        for p in names {
            if p.extension().and_then(|e| e.to_str()) == Some("dlt") {
                if let Ok(data) = std::fs::read(&p) {
                    let m: Vec<DltMessage> = adlt::utils::DltMessageIterator::new(0, std::io::Cursor::new(data)).take(30_000).collect();
                    if m.len() > 10 {
                        v.push(m);
                    }
                }
            }
        }
        v
    })
}

fn repo_msgs(c: &RepoCase) -> Vec<DltMessage> {
    let pool = repo_pool();
    if pool.is_empty() {
        return vec![];
    }
    let f = &pool[(c.0 as usize * pool.len()) >> 16];
    let len = 1 + (c.2 as usize % 3000);
    let start = (c.1 as usize * f.len().saturating_sub(len).max(1)) >> 16;
    let mut m: Vec<DltMessage> = f[start..std::cmp::min(f.len(), start + len)].to_vec();
    for op in &c.3 {
        let n = m.len();
        if n < 4 {
            break;
        }
        let pos = |p: u16| (p as usize * n) >> 16;
        match op {
            TOp::Drop(a, l) => {
                let s = pos(*a);
                let e = std::cmp::min(n, s + (*l as usize % 200));
                m.drain(s..e);
            }
            TOp::Swap(a, b, l) => {
                let l = 1 + (*l as usize % 50);
                let (x, y) = (pos(*a), pos(*b));
                let (x, y) = (std::cmp::min(x, y), std::cmp::max(x, y));
                if x + l <= y && y + l <= n {
                    for k in 0..l {
                        m.swap(x + k, y + k);
                    }
                }
            }
            TOp::ShiftTime(a, l, d) => {
                let s = pos(*a);
                let e = std::cmp::min(n, s + (*l as usize % 500));
                for x in &mut m[s..e] {
                    x.reception_time_us = (x.reception_time_us as i64 + *d as i64 * 1000).max(1) as u64;
                }
            }
            TOp::ZeroTs(a, l) => {
                let s = pos(*a);
                let e = std::cmp::min(n, s + (*l as usize % 20));
                for x in &mut m[s..e] {
                    x.timestamp_dms = 0;
                }
            }
            TOp::OtherEcu(a, l) => {
                let s = pos(*a);
                let e = std::cmp::min(n, s + (*l as usize % 300));
                for x in &mut m[s..e] {
                    x.ecu = ecu_name(7);
                }
            }
        }
    }
    for (i, x) in m.iter_mut().enumerate() {
        x.index = i as u32;
        x.lifecycle = 0;
    }
    m
}

fn repo_strategy() -> impl Strategy<Value = RepoCase> {
    let op = prop_oneof![
        (any::<u16>(), any::<u16>()).prop_map(|(a, b)| TOp::Drop(a, b)),
        (any::<u16>(), any::<u16>(), any::<u16>()).prop_map(|(a, b, c)| TOp::Swap(a, b, c)),
        (any::<u16>(), any::<u16>(), prop_oneof![-100_000i32..100_000, -5_000i32..5_000]).prop_map(|(a, b, c)| TOp::ShiftTime(a, b, c)),
        (any::<u16>(), any::<u16>()).prop_map(|(a, b)| TOp::ZeroTs(a, b)),
        (any::<u16>(), any::<u16>()).prop_map(|(a, b)| TOp::OtherEcu(a, b)),
    ];
    (any::<u16>(), any::<u16>(), any::<u16>(), prop::collection::vec(op, 0..6))
}

/// C05 + C06 + C07 invariants on (perturbed) windows of the repository's example traces
fn repo_traces(c: &RepoCase, rep: &mut Rep) -> Result<(), String> {
    if repo_pool().is_empty() {
        return Err("harness: no repository traces found".into());
    }
    let msgs = repo_msgs(c);
    if msgs.is_empty() {
        rep.label("all_dropped");
        return Ok(());
    }
    let n = msgs.len();
    let (res, _r, _w) = run_detector(msgs.clone(), &DetOpts { cross_thread: false, paced: false, want_listing: true }, None);
    let (_m, merged) = common_labels(&res, rep);
    rep.label_if(!c.3.is_empty(), "perturbed");
    rep.nontrivial = res.table.len() >= 2 || merged;
    c05_invariants(&msgs, &res)?;
    for (i, m) in res.out.iter().enumerate() {
        ensure!(res.vis_same[i], "message #{} delivered with lifecycle {} not visible at delivery time", i, m.lifecycle);
    }
    c07_invariants(&res, n)
}

// ----------------------------------------------------------------------------- defs
const MESSY_RULE: &str = "M-TRACE-MESSY: 1..3 ECUs interleaved, events with reception deltas (mostly >=0, 10% negative, up to 200 s), timestamp modes {continue, reboot, 0, arbitrary, buffered-older <=70 s}, kinds {log, control request, no timestamp, control responses (sw version / odd bodies)}; short (1..40) and long (up to 400) streams; ";

pub fn c05(tier: Tier) -> PropertyDef {
    PropertyDef {
        id: "C05",
        rule: "M-TRACE-MESSY streams through parse_lifecycles_buffered_from_stream (pre-filled and rendez-vous paced input, fresh and pre-populated table); oracle: output == input (order, fields) except lifecycle, id != 0, id in final table with the message's ECU. Non-trivial: >=2 lifecycles on one ECU and (a merge happened = more ids allocated than delivered, or a message was observably held back).",
        assumptions: vec!["lifecycle ids are process global; merges are detected by probing Lifecycle::new before/after the run"],
        subs: vec![
            sub("messy_short", tier.pick(400_000, 6_000_000), messy(3, 40), c05_check).rates(&[("merge_happened", 0.02), ("ge2_lifecycles_one_ecu", 0.3), ("held_back_observed", 0.03)]).boxed(),
            sub("messy_long", tier.pick(20_000, 300_000), messy(3, 400), c05_check).rates(&[("merge_happened", 0.2)]).boxed(),
            sub("prepopulated", tier.pick(100_000, 1_500_000), (prop::collection::vec(ev(3), 2..80), any::<u16>()), c05_prepop).rates(&[("prepopulated_ge2", 0.2)]).boxed(),
            sub("repo_traces", tier.pick(3_000, 60_000), repo_strategy(), repo_traces).rates(&[("perturbed", 0.5)]).shrink_iters(200).boxed(),
        ],
        workers: 16,
    }
}
pub fn c06(tier: Tier) -> PropertyDef {
    PropertyDef {
        id: "C06",
        rule: "M-TRACE-MESSY streams; at every call of the outflow closure the message's lifecycle is looked up through a ReadHandle in the same thread and (synchronous hand-shake) through a cloned handle owned by another thread; variant with a consumer thread behind sync_channel(0|1|8). Non-trivial: >=2 lifecycles on one ECU or a merge or an observed hold-back.",
        assumptions: vec!["evmap's publication semantics are trusted; only the detector's use (update+refresh before release) is tested", "schedules explored are those induced by hand-shake, rendez-vous pacing and channel capacities"],
        subs: vec![
            sub("visible_at_delivery", tier.pick(100_000, 2_000_000), messy(3, 40), c06_check).rates(&[("ge2_lifecycles_one_ecu", 0.3), ("held_back_observed", 0.05)]).boxed(),
            sub("visible_at_delivery_long", tier.pick(5_000, 100_000), messy(3, 400), c06_check).boxed(),
            sub("consumer_thread", tier.pick(50_000, 800_000), messy(3, 60), c06_consumers).rates(&[("ge2_lifecycles", 0.3)]).boxed(),
        ],
        workers: 16,
    }
}
pub fn c07(tier: Tier) -> PropertyDef {
    PropertyDef {
        id: "C07",
        rule: "M-TRACE-MESSY streams; oracle: histogram of delivered lifecycle ids vs. published table (every entry referenced, nr_msgs = count, sum = n, no nr_msgs==0 / value-less entry), listing via get_sorted_lifecycles_as_vec: no panic, permutation of the table, resumed lifecycle (hook resume_origin_id) after its origin, ordered by start time when no resume. Non-trivial: >=3 lifecycles and a merge or a resume.",
        assumptions: vec!["resume origin read through the adlt_verif hook Lifecycle::resume_origin_id"],
        subs: vec![
            sub("table_short", tier.pick(600_000, 8_000_000), messy(3, 40), c07_check).rates(&[("merge_happened", 0.02), ("has_resume", 0.02), ("periodic_refresh_reached", 0.3), ("single_ecu", 0.2)]).boxed(),
            sub("table_long", tier.pick(40_000, 500_000), messy(2, 400), c07_check).rates(&[("gt20_lifecycles", 0.1), ("has_resume", 0.2), ("resume_start_le_origin_start", 0.02)]).boxed(),
            crate::props::binsubs::c07_sub(tier),
            crate::props::binsubs::c07_remote_sub(tier),
            crate::props::binsubs::c07_remote_strict_sub(),
            sub("repo_traces", tier.pick(3_000, 60_000), repo_strategy(), repo_traces).rates(&[("perturbed", 0.5)]).shrink_iters(200).boxed(),
        ],
        workers: 16,
    }
}
pub fn c08(tier: Tier) -> PropertyDef {
    PropertyDef {
        id: "C08",
        rule: "M-TRACE-CLEAN: 1..4 ECUs x 1..6 boots x 1..40 messages, off-time >= 1 ms after the last reception of the previous boot, per-boot delay 0..120 s, timestamps in any order incl. 0, boot durations up to 4000 s, ECUs interleaved by a choice sequence, message indices consecutive or with a stride (1000, 30011, 100003: the periodic publication of the table every 100 000 indices is reached); oracle = generator ground truth (one lifecycle per boot, every message assigned to its boot, start = boot+delay, end = start+max timestamp, nr_msgs). Non-trivial: (>=2 boots on an ECU and >=2 ECUs) or a boot starting with timestamp 0 or unsorted timestamps within a boot.",
        assumptions: vec!["next boot time >= last reception of the previous boot + off (see DESIGN 4/C08 domain note)"],
        subs: vec![
            sub("clean_exact", tier.pick(500_000, 8_000_000), clean(4, 6, 40), c08_check).rates(&[("ge2_boots", 0.4), ("ge2_ecus", 0.4), ("first_timestamp_zero", 0.1), ("unsorted_within_boot", 0.3), ("tiny_boot", 0.1), ("resume_flagged", 0.03), ("uptime_gt_2pow32_us", 0.03), ("periodic_refresh_reached", 0.2)]).boxed(),
        ],
        workers: 16,
    }
}
const _: &str = MESSY_RULE;
