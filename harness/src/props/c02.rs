//! C02 Export fidelity: write/parse round trip and normal form
use crate::engine::*;
use crate::model::wire::*;
use crate::{ensure, ensure_eq};
use adlt::dlt::{parse_dlt_with_storage_header, DltMessage};
use adlt::utils::DltMessageIterator;
use proptest::prelude::*;

fn has_marker(b: &[u8], skip_starts: &[usize]) -> bool {
    if b.len() < 4 {
        return false;
    }
    for p in 0..b.len() - 3 {
        if b[p] == b'D' && b[p + 1] == b'L' && (b[p + 2] == b'T' || b[p + 2] == b'S') && b[p + 3] == 1 && !skip_starts.contains(&p) {
            return true;
        }
    }
    false
}

pub fn same_content(a: &DltMessage, b: &DltMessage) -> Result<(), String> {
    ensure_eq!(a.ecu, b.ecu, "ecu");
    ensure_eq!(a.reception_time_us, b.reception_time_us, "reception time");
    ensure_eq!(a.timestamp_dms, b.timestamp_dms, "timestamp");
    ensure_eq!(a.standard_header.has_timestamp(), b.standard_header.has_timestamp(), "timestamp presence");
    ensure_eq!(a.mcnt(), b.mcnt(), "mcnt");
    ensure_eq!(a.standard_header.is_big_endian(), b.standard_header.is_big_endian(), "payload byte order");
    ensure_eq!(a.extended_header, b.extended_header, "extended header");
    ensure!(a.payload == b.payload, "payload bytes differ (len {} vs {})", a.payload.len(), b.payload.len());
    Ok(())
}

fn check(v: &(Stream, u32), rep: &mut Rep) -> Result<(), String> {
    let (stream, start) = v;
    let enc = match stream.encode_clean() {
        Some(e) => e,
        None => {
            rep.label("discarded_unrepairable_marker");
            return Ok(());
        }
    };
    let mut msgs: Vec<DltMessage> = DltMessageIterator::new(*start, std::io::Cursor::new(&enc.bytes[..])).collect();
    if msgs.is_empty() {
        rep.label("no_message");
        return Ok(());
    }
    // messages whose payload contains a frame marker (DLT data carried inside DLT, transfers of .dlt files): such a
    // message is as exportable as any other one
    if *start % 4 == 1 {
        for (k, m) in msgs.iter_mut().enumerate() {
            // (not into near-maximum messages: that is the input class of the listed finding F04)
            if m.payload.len() >= 4 && m.payload.len() < 65_400 && (k as u32 + *start / 4) % 2 == 0 {
                let p = ((*start as usize / 8) + k * 7) % (m.payload.len() - 3);
                let marker: &[u8; 4] = if (k + *start as usize / 4) % 3 == 0 { b"DLS\x01" } else { b"DLT\x01" };
                m.payload[p..p + 4].copy_from_slice(marker);
                rep.label("frame_marker_in_payload");
            }
        }
    }
    let mut concat: Vec<u8> = vec![];
    let mut starts = vec![];
    for m in &msgs {
        let h = m.standard_header.htyp;
        rep.label_if(h & (HTYP_WEID | HTYP_WSID) != 0, "weid_or_wsid");
        rep.label_if(h & HTYP_MSBF != 0, "msbf");
        rep.label_if(h & HTYP_WTMS == 0, "no_timestamp");
        rep.label_if(h & HTYP_WTMS != 0 && m.timestamp_dms == 0, "timestamp_present_but_zero");
        rep.label_if(m.payload.len() > 60000, "payload_gt_60000");
        if h & (HTYP_WEID | HTYP_WSID | HTYP_MSBF) != 0 || m.payload.len() > 60000 {
            rep.nontrivial = true;
        }
        let mut b1 = vec![];
        m.to_write(&mut b1).map_err(|e| format!("to_write failed: {}", e))?;
        let (consumed, m2) = parse_dlt_with_storage_header(m.index, &b1).map_err(|e| format!("written bytes do not parse: {:?} (msg {:?})", e.kind(), m.standard_header))?;
        ensure_eq!(consumed, b1.len(), "bytes consumed vs written");
        same_content(m, &m2).map_err(|e| format!("re-read message differs in {}", e))?;
        ensure_eq!(m2.index, m.index, "index passed through");
        let mut b2 = vec![];
        m2.to_write(&mut b2).map_err(|e| format!("to_write failed: {}", e))?;
        ensure!(b1 == b2, "writing the re-read message gives different bytes (normal form not idempotent): {:02x?} vs {:02x?}", &b1[..std::cmp::min(40, b1.len())], &b2[..std::cmp::min(40, b2.len())]);
        starts.push(concat.len());
        concat.extend_from_slice(&b1);
    }
    // export of all messages re-reads to the same sequence in order, and exporting the export is identical
    rep.label_if(has_marker(&concat, &starts), "export_contains_marker_inside_messages");
    let again: Vec<DltMessage> = DltMessageIterator::new(*start, std::io::Cursor::new(&concat[..])).collect();
    ensure_eq!(again.len(), msgs.len(), "messages in re-read export");
    let mut concat2 = vec![];
    for (a, b) in msgs.iter().zip(again.iter()) {
        same_content(a, b).map_err(|e| format!("export re-read: message {} differs in {}", a.index, e))?;
        ensure_eq!(a.index, b.index, "export re-read index");
        b.to_write(&mut concat2).map_err(|e| e.to_string())?;
    }
    ensure!(concat == concat2, "export of the export is not byte identical");
    Ok(())
}

pub fn def(tier: Tier) -> PropertyDef {
    let start = prop_oneof![Just(0u32), 0u32..1000];
    PropertyDef {
        id: "C02",
        rule: "messages as parsed from generated marker-clean M-STREAM streams (both framings, all htyp flag combinations, payload 0..max, arbitrary ids/counters/times, micros < 10^6); oracle: to_write -> parse_dlt_with_storage_header consumes exactly the bytes and yields the same ECU, reception time, timestamp (+presence), mcnt, byte order bit, extended header, payload; to_write of the re-read message is byte identical; concatenated export re-reads to the same sequence and exports identically. Non-trivial: message with WEID/WSID (rewritten length differs) or MSBF or payload > 60000.",
        assumptions: vec!["input messages come from the real parser (C01 decides that the parser is faithful)"],
        subs: vec![
            sub("roundtrip_small", tier.pick(300_000, 3_000_000), (stream(20, false, 100), start.clone()), check)
                .rates(&[("weid_or_wsid", 0.3), ("msbf", 0.3), ("no_timestamp", 0.3), ("timestamp_present_but_zero", 0.05), ("frame_marker_in_payload", 0.1)])
                .boxed(),
            sub("roundtrip_huge", tier.pick(30_000, 400_000), (stream(6, true, 100), start), check)
                .rates(&[("payload_gt_60000", 0.05)])
                .boxed(),
            crate::props::binsubs::c02_sub(tier),
            crate::props::binsubs::c02_sub_large(tier),
            crate::props::binsubs::c02_sub_edge(tier),
        ],
        workers: 16,
    }
}
