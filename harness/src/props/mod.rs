use crate::engine::{PropertyDef, Tier};
pub mod binsubs;
pub mod c01;
pub mod c02;
pub mod c03;
pub mod c04;
pub mod c09;
pub mod c10;
pub mod c11;
pub mod c12;
pub mod c13;
pub mod c14;
pub mod c15;
pub mod c16a;
pub mod c16b;
pub mod c16c;
pub mod proto;
pub mod c17;
pub mod c18;
pub mod c19;
pub mod c20;
pub mod lc;

pub fn get(id: &str, tier: Tier) -> Option<PropertyDef> {
    match id {
        "C01" => Some(c01::def(tier)),
        "C09" => Some(c09::def(tier)),
        "C10" => Some(c10::def(tier)),
        "C11" => Some(c11::def(tier)),
        "C12" => Some(c12::def(tier)),
        "C13" => Some(c13::def(tier)),
        "C14" => Some(c14::def(tier)),
        "C15" => Some(c15::def(tier)),
        "C16" => Some(crate::engine::PropertyDef {
            id: "C16",
            rule: "A (library): StreamContext::from + sequences of process_stream_new_msgs driven like the server loop with generated growth of the message list (batches 0..n), chunk sizes 1..3000, stream vs query, windows and window changes; invariants after every call: filtered_msgs strictly increasing and equal to the reference matching positions below the processed marker, bounded progress until caught up, window content. B (binary, websocket): generated logs (5..3600 messages), filter sets via JSON, windows (empty, beyond the end, proper sub ranges), stream/query, binary/text mode, window changes, search paging (all page sizes/start positions), index/time lookups, arrival varied by pause/resume and the parser throttle hook; oracle: delivered messages of stream id X = positions [start, min(end,len)) of the reference filtered sequence with all fields equal to the file, only after the reply announcing X, queries terminated by the empty frame (prefix-correctness only while parsing runs), union of search pages = matching positions with advancing continuation, lookups = first position not before the requested one. Non-trivial: filter keeps 10..90% and the window is a proper sub range, or >=2 search pages, or >=1 window change.",
            assumptions: vec!["queries issued while parsing is still running may end early (10 ms poll): only prefix-correctness is asserted then", "time lookups only on logs with strictly increasing calculated times"],
            subs: vec![c16a::def_sub(tier), c16b::def_sub(tier), c16c::def_sub(tier), c16c::def_sub_large(tier), c16c::def_sub_many(tier)],
            workers: 16,
        }),
        "C17" => Some(c17::def(tier)),
        "C18" => Some(c18::def(tier)),
        "C02" => Some(c02::def(tier)),
        "C03" => Some(c03::def(tier)),
        "C04" => Some(c04::def(tier)),
        "C05" => Some(lc::c05(tier)),
        "C06" => Some(lc::c06(tier)),
        "C07" => Some(lc::c07(tier)),
        "C08" => Some(lc::c08(tier)),
        "C19" => Some(c19::def(tier)),
        "C20" => Some(c20::def(tier)),
        _ => None,
    }
}
pub const ALL: &[&str] = &["C01", "C09"];
