//! C18 Verbose payloads: encode/decode agreement and canonical text
use crate::engine::*;
use crate::model::args::*;
use crate::{ensure, ensure_eq};
use adlt::dlt::*;
use adlt::serde_verb_payload::{add_to_serializer, DltVerbArgTypeWrapper, Serializer};
use proptest::prelude::*;

fn verbose_msg(be: bool, noar: u8, payload: Vec<u8>) -> DltMessage {
    // verbose arguments are decoded for log and for application trace messages alike, with any sub type
    let vmm = if payload.len() % 3 == 2 { 0x01 | (1 << 1) | (((payload.len() / 3) as u8 & 0x0f) << 4) } else { 0x01 | (((payload.len() / 3) as u8 & 0x0f) << 4) };
    verbose_msg_vmm(be, noar, payload, vmm)
}
fn verbose_msg_vmm(be: bool, noar: u8, payload: Vec<u8>, vmm: u8) -> DltMessage {
    DltMessage {
        index: 0,
        reception_time_us: 0,
        ecu: DltChar4::from_buf(b"ECU1"),
        timestamp_dms: 0,
        standard_header: DltStandardHeader { htyp: 0x21 | if be { 2 } else { 0 }, mcnt: 0, len: 0 },
        extended_header: Some(DltExtendedHeader { verb_mstp_mtin: vmm, noar, apid: DltChar4::from_buf(b"APID"), ctid: DltChar4::from_buf(b"CTID") }),
        payload,
        payload_text: None,
        lifecycle: 0,
    }
}

fn in_payload(m: &DltMessage, raw: &[u8]) -> bool {
    if raw.is_empty() {
        return true;
    }
    let p = m.payload.as_ptr() as usize;
    let r = raw.as_ptr() as usize;
    r >= p && r + raw.len() <= p + m.payload.len()
}

/// decode and compare with the first `n_expected` (exactly) or a prefix (if !exact) of vals
fn decode_check(m: &DltMessage, vals: &[Val], be: bool, exact: bool, min_prefix: usize) -> Result<usize, String> {
    let mut n = 0;
    for (i, arg) in m.into_iter().enumerate() {
        ensure!(i < vals.len(), "decoded more arguments ({}) than encoded ({})", i + 1, vals.len());
        ensure!(in_payload(m, arg.payload_raw), "arg #{}: payload_raw outside of the payload", i);
        ensure_eq!(arg.type_info, vals[i].type_info(), "arg #{} type info", i);
        ensure_eq!(arg.is_big_endian, be, "arg #{} endianess", i);
        ensure!(arg.payload_raw == &vals[i].raw(be)[..], "arg #{} ({}) raw bytes differ: got {:02x?}", i, kind_name(&vals[i]), &arg.payload_raw[..std::cmp::min(16, arg.payload_raw.len())]);
        n = i + 1;
    }
    if exact {
        ensure_eq!(n, vals.len(), "number of decoded arguments");
    } else {
        ensure!(n >= min_prefix, "decoded only {} arguments although the first {} are intact", n, min_prefix);
    }
    let text = m.payload_as_text().map_err(|e| format!("payload_as_text error {:?}", e))?;
    check_text(&vals[..n], &text).map_err(|e| format!("text rendering: {} (full text {:?})", e, text.chars().take(120).collect::<String>()))?;
    Ok(n)
}

fn classify(vals: &[Val], rep: &mut Rep) {
    let kinds: std::collections::HashSet<u8> = vals.iter().map(|v| v.kind()).collect();
    rep.nontrivial = vals.len() >= 3 && kinds.len() >= 2;
    rep.label_if(vals.is_empty(), "no_args");
    rep.label_if(vals.iter().any(|v| v.has_len() && v.raw(false).is_empty()), "empty_string_or_raw");
    rep.label_if(vals.iter().any(|v| matches!(v, Val::F32(_) | Val::F64(_))), "float");
    rep.label_if(vals.iter().any(|v| matches!(v, Val::Utf8(b) if std::str::from_utf8(b).is_err())), "invalid_utf8");
    rep.label_if(vals.iter().any(|v| matches!(v, Val::Utf8(b) | Val::Ascii(b) if b.iter().any(|c| *c == b'\r' || *c == b'\n' || *c == b'\t'))), "control_chars_in_string");
    rep.label_if(vals.iter().any(|v| v.has_len() && v.raw(false).len() > 60000), "huge_string");
}

/// (values, big endian, encoder: 0 = harness encoder, 1 = adlt payload_from_args)
pub fn check_decode(v: &(Vec<Val>, bool, u8), rep: &mut Rep) -> Result<(), String> {
    let (vals, be, encoder) = v;
    classify(vals, rep);
    rep.label_if(*be, "big_endian");
    let own = encode_args(vals, *be);
    let payload = if *encoder == 1 {
        rep.label("payload_from_args");
        let raws: Vec<Vec<u8>> = vals.iter().map(|v| v.raw(*be)).collect();
        let args: Vec<DltArg> = vals.iter().zip(raws.iter()).map(|(v, r)| DltArg { type_info: v.type_info(), is_big_endian: *be, payload_raw: r }).collect();
        let p = adlt::utils::payload_from_args(&args);
        p
    } else {
        own
    };
    if payload.len() > 65000 {
        rep.label("too_large_skipped");
        return Ok(());
    }
    let m = verbose_msg(*be, vals.len() as u8, payload);
    decode_check(&m, vals, *be, true, 0)?;
    Ok(())
}

#[derive(Clone, Debug, serde::Serialize, serde::Deserialize)]
enum SVal {
    V(Val),   // numeric/bool/raw/ascii(bytes incl. termination as given)
    S(String), // utf8 str (encoder appends the NUL)
}

fn check_serde(vals: &Vec<SVal>, rep: &mut Rep) -> Result<(), String> {
    let mut ser = Serializer { output: vec![] };
    let mut exp: Vec<Val> = vec![];
    for v in vals {
        let r = match v {
            SVal::S(s) => {
                let mut b = s.as_bytes().to_vec();
                b.push(0);
                exp.push(Val::Utf8(b));
                add_to_serializer(&mut ser, &s.as_str())
            }
            SVal::V(v) => {
                exp.push(v.clone());
                match v {
                    Val::Bool(x) => add_to_serializer(&mut ser, x),
                    Val::U8(x) => add_to_serializer(&mut ser, x),
                    Val::U16(x) => add_to_serializer(&mut ser, x),
                    Val::U32(x) => add_to_serializer(&mut ser, x),
                    Val::U64(x) => add_to_serializer(&mut ser, x),
                    Val::I8(x) => add_to_serializer(&mut ser, x),
                    Val::I16(x) => add_to_serializer(&mut ser, x),
                    Val::I32(x) => add_to_serializer(&mut ser, x),
                    Val::I64(x) => add_to_serializer(&mut ser, x),
                    Val::F32(x) => add_to_serializer(&mut ser, &f32::from_bits(*x)),
                    Val::F64(x) => add_to_serializer(&mut ser, &f64::from_bits(*x)),
                    Val::Raw(b) => add_to_serializer(&mut ser, &serde_bytes::Bytes::new(b)),
                    Val::Ascii(b) => add_to_serializer(&mut ser, &DltVerbArgTypeWrapper::DltScodAscii(serde_bytes::Bytes::new(b))),
                    Val::Utf8(_) => unreachable!(),
                }
            }
        };
        r.map_err(|e| format!("serializer refused a supported value: {:?}", e))?;
    }
    classify(&exp, rep);
    let be = cfg!(target_endian = "big");
    let m = verbose_msg(be, exp.len() as u8, ser.output);
    // the statement asks for decode agreement, not for one byte layout: a str may be written with or without
    // its NUL termination (the value is the same)
    for (i, arg) in (&m).into_iter().enumerate() {
        if let (Some(SVal::S(s)), Some(e)) = (vals.get(i), exp.get_mut(i)) {
            if arg.payload_raw == s.as_bytes() {
                *e = Val::Utf8(s.as_bytes().to_vec());
            }
        }
    }
    decode_check(&m, &exp, be, true, 0)?;
    Ok(())
}

/// strings/raw data around the 16 bit length limit: the serializer refuses, or what it wrote decodes to the value
fn check_serde_limits(v: &(u8, u32, u8), rep: &mut Rep) -> Result<(), String> {
    let (kind, len, fillb) = v;
    let len = *len as usize;
    let be = cfg!(target_endian = "big");
    let fill = b'a' + fillb % 26;
    let data = vec![fill; len];
    let mut ser = Serializer { output: vec![] };
    let (r, exp) = match kind % 3 {
        0 => {
            let st = String::from_utf8(data.clone()).unwrap();
            let mut b = data.clone();
            b.push(0);
            (add_to_serializer(&mut ser, &st.as_str()), Val::Utf8(b))
        }
        1 => (add_to_serializer(&mut ser, &serde_bytes::Bytes::new(&data)), Val::Raw(data.clone())),
        _ => (add_to_serializer(&mut ser, &DltVerbArgTypeWrapper::DltScodAscii(serde_bytes::Bytes::new(&data))), Val::Ascii(data.clone())),
    };
    rep.label(["str", "bytes", "ascii"][*kind as usize % 3]);
    rep.label_if(len >= 0xfffe, "at_length_limit");
    rep.nontrivial = len >= 0xfff0;
    if r.is_err() {
        rep.label("refused");
        ensure!(len >= 0xff00, "serializer refused a value of {} bytes", len);
        return Ok(());
    }
    let m = verbose_msg_vmm(be, 1, ser.output, 0x41);
    let args: Vec<DltArg> = (&m).into_iter().collect();
    ensure_eq!(args.len(), 1, "number of decoded arguments for a {} byte value", len);
    ensure_eq!(args[0].type_info, exp.type_info(), "type info");
    let raw = args[0].payload_raw;
    let ok = raw == &exp.raw(be)[..] || (kind % 3 == 0 && raw == &data[..]);
    ensure!(ok, "a {} byte value was accepted by the serializer but decodes to {} bytes", len, raw.len());
    Ok(())
}

#[path = "c18_many_args.rs"]
mod many_args;

/// the dlt_args! macro reports the number of arguments it wrote
fn check_dlt_args(v: &(u32, i16, bool, String, f64), rep: &mut Rep) -> Result<(), String> {
    let (a, b, c, d, e) = v;
    let be = cfg!(target_endian = "big");
    rep.nontrivial = true;
    let (n0, p0) = adlt::dlt_args!().map_err(|e| format!("{:?}", e))?;
    ensure!(n0 == 0 && p0.is_empty(), "dlt_args!() = ({}, {} bytes)", n0, p0.len());
    let (n1, p1) = adlt::dlt_args!(*a).map_err(|e| format!("{:?}", e))?;
    let (n3, p3) = adlt::dlt_args!(*a, d.as_str(), *c).map_err(|e| format!("{:?}", e))?;
    let (n5, p5) = adlt::dlt_args!(*a, *b, *c, d.as_str(), *e).map_err(|e| format!("{:?}", e))?;
    for (n, p, want) in [(n1, p1, 1usize), (n3, p3, 3), (n5, p5, 5)] {
        ensure_eq!(n as usize, want, "number of arguments reported by dlt_args!");
        let m = verbose_msg_vmm(be, n, p, 0x41);
        ensure_eq!((&m).into_iter().count(), want, "number of arguments decoded from the dlt_args! payload");
    }
    // the argument counter of a message is one byte: 255 arguments are the most a payload can announce, one more is refused
    let (n, p) = many_args::args_255(*a).map_err(|e| format!("255 arguments refused: {:?}", e))?;
    ensure_eq!(n, 255, "number of arguments reported by dlt_args! for 255 arguments");
    let m = verbose_msg_vmm(be, n, p, 0x41);
    ensure_eq!((&m).into_iter().count(), 255, "number of arguments decoded from the dlt_args! payload");
    ensure!((&m).into_iter().all(|x| x.payload_raw == a.to_ne_bytes()), "255 arguments: values differ");
    if let Ok((n, p)) = many_args::args_256(*a) {
        return Err(format!("dlt_args! with 256 arguments reports {} arguments ({} bytes) instead of an error", n, p.len()));
    }
    Ok(())
}

/// (values, be, fault kind, position selector a, selector b)
pub fn check_fault(v: &(Vec<Val>, bool, u8, u16, u16), rep: &mut Rep) -> Result<(), String> {
    let (vals, be, kind, a, b) = v;
    classify(vals, rep);
    let full = encode_args(vals, *be);
    if full.is_empty() || full.len() > 65000 {
        rep.label("empty_skipped");
        return Ok(());
    }
    // offsets of args
    let mut offs = vec![];
    let mut o = 0;
    for v in vals {
        offs.push(o);
        o += v.encoded_len();
    }
    let pick = |sel: u16, len: usize| -> usize { (sel as usize * len) >> 16 };
    match kind % 4 {
        3 => {
            // replace the whole type info word of one argument
            let ai = pick(*a, vals.len());
            rep.label("typeinfo_replaced");
            let word: u32 = match *b % 10 {
                0 => 0,
                1 => u32::MAX,
                2 => 0x80 | 2,          // FLOA with a 16 bit length code
                3 => 0x10 | 0x40 | 3,   // BOOL|UINT
                4 => 0x200 | (2 << 15), // STRG with reserved string coding
                5 => 0x200 | (7 << 15),
                6 => 0x100 | 0x43,      // ARAY of UINT
                7 => 0x800 | 0x43,      // VARI
                8 => 0x4000,            // STRU
                _ => ((*a as u32) << 16) | *b as u32,
            };
            let mut p = full.clone();
            let wb = if *be { word.to_be_bytes() } else { word.to_le_bytes() };
            p[offs[ai]..offs[ai] + 4].copy_from_slice(&wb);
            let m = verbose_msg(*be, vals.len() as u8, p);
            prefix_check(&m, vals, *be, ai)?;
        }
        0 => {
            // truncation at every generated cut point
            let cut = pick(*a, full.len());
            rep.label("truncated");
            let intact = offs.iter().zip(vals.iter()).take_while(|(o, v)| **o + v.encoded_len() <= cut).count();
            let m = verbose_msg(*be, vals.len() as u8, full[..cut].to_vec());
            let n = decode_check(&m, vals, *be, false, intact)?;
            ensure!(n <= intact, "decoded {} arguments from {} bytes which hold only {} complete ones", n, cut, intact);
        }
        1 => {
            // flip one bit of the type info word of one argument
            let ai = pick(*a, vals.len());
            let bit = (*b % 32) as usize;
            rep.label("typeinfo_bit_flipped");
            let mut p = full.clone();
            let byte = if *be { 3 - bit / 8 } else { bit / 8 };
            p[offs[ai] + byte] ^= 1 << (bit % 8);
            let m = verbose_msg(*be, vals.len() as u8, p);
            prefix_check(&m, vals, *be, ai)?;
        }
        _ => {
            // corrupt a length field (if any), else cut inside
            let with_len: Vec<usize> = (0..vals.len()).filter(|i| vals[*i].has_len()).collect();
            if with_len.is_empty() {
                rep.label("no_length_field");
                return Ok(());
            }
            let ai = with_len[pick(*a, with_len.len())];
            rep.label("length_field_corrupted");
            let mut p = full.clone();
            let newlen: u16 = match *b % 4 {
                0 => 0xffff,
                1 => (vals[ai].raw(*be).len() as u16).wrapping_add(1),
                2 => (vals[ai].raw(*be).len() as u16).wrapping_sub(1),
                _ => *b,
            };
            let lb = if *be { newlen.to_be_bytes() } else { newlen.to_le_bytes() };
            p[offs[ai] + 4] = lb[0];
            p[offs[ai] + 5] = lb[1];
            let m = verbose_msg(*be, vals.len() as u8, p);
            prefix_check(&m, vals, *be, ai)?;
        }
    }
    Ok(())
}

/// args before `first_touched` have to be decoded unchanged; whatever follows must stay inside the payload and must not panic
fn prefix_check(m: &DltMessage, vals: &[Val], be: bool, first_touched: usize) -> Result<(), String> {
    let mut n = 0;
    for (i, arg) in m.into_iter().enumerate() {
        ensure!(in_payload(m, arg.payload_raw), "arg #{}: payload_raw outside of the payload", i);
        if i < first_touched {
            ensure_eq!(arg.type_info, vals[i].type_info(), "untouched arg #{} type info", i);
            ensure!(arg.payload_raw == &vals[i].raw(be)[..], "untouched arg #{} raw bytes differ", i);
        }
        n = i + 1;
        ensure!(n <= m.payload.len(), "more arguments than payload bytes");
    }
    ensure!(n >= first_touched, "decoded only {} arguments although the first {} are intact", n, first_touched);
    let text = m.payload_as_text().map_err(|e| format!("payload_as_text error {:?}", e))?;
    // text starts with the canonical rendering of the untouched prefix
    let mut prefix_ok = false;
    for cut in (0..=text.len()).filter(|c| text.is_char_boundary(*c)) {
        if check_text(&vals[..first_touched], &text[..cut]).is_ok() {
            prefix_ok = true;
            break;
        }
    }
    ensure!(prefix_ok, "text {:?} does not start with the rendering of the {} untouched arguments", text.chars().take(100).collect::<String>(), first_touched);
    Ok(())
}

pub fn def(tier: Tier) -> PropertyDef {
    let vals = prop::collection::vec(val(), 0..13).boxed();
    let huge = (
        prop::collection::vec(val(), 0..3),
        (prop::collection::vec(any::<u8>(), 1..8), 60_000usize..64_000, 0u8..3),
    )
        .prop_map(|(mut v, (chunk, len, k))| {
            let b: Vec<u8> = chunk.iter().cycle().take(len).copied().collect();
            v.push(match k {
                0 => Val::Utf8(b),
                1 => Val::Ascii(b),
                _ => Val::Raw(b),
            });
            v
        });
    let sval = prop_oneof![
        3 => val().prop_filter("utf8 handled by S", |v| !matches!(v, Val::Utf8(_))).prop_map(SVal::V),
        1 => text_val().prop_map(SVal::S),
    ];
    PropertyDef {
        id: "C18",
        rule: "M-ARGS: 0..12 typed values (bool, u/i 8..64, f32/f64 incl. NaN/inf/-0/extremes, utf8/ascii strings incl. empty, NUL/double NUL terminated, CR/LF/TAB, invalid utf-8, cp1252 bytes, raw) encoded by (i) the harness' reference encoder, (ii) payload_from_args, (iii) the serde Serializer, both byte orders (iii: host); oracle: decoded args = values (type info, raw bytes), text = canonical rendering (floats parse back bit-exactly); truncation at generated cut points and single type-info/length corruptions decode to the untouched prefix inside the payload. Non-trivial: >= 3 args of >= 2 kinds.",
        assumptions: vec!["String::from_utf8_lossy and encoding_rs WINDOWS_1252 are trusted for the expected string text", "raw data is rendered as lower-case hex pairs separated by one space"],
        subs: vec![
            sub("decode_text", tier.pick(500_000, 8_000_000), (vals.clone(), any::<bool>(), 0u8..2), check_decode)
                .rates(&[("empty_string_or_raw", 0.1), ("float", 0.3), ("invalid_utf8", 0.05), ("big_endian", 0.3), ("payload_from_args", 0.3)])
                .boxed(),
            sub("decode_text_huge", tier.pick(3_000, 40_000), (huge, any::<bool>(), 0u8..2), check_decode).rates(&[("huge_string", 0.8)]).boxed(),
            sub("serde_encoder", tier.pick(300_000, 4_000_000), prop::collection::vec(sval, 0..10), check_serde).boxed(),
            sub("truncate_corrupt", tier.pick(500_000, 8_000_000), (vals, any::<bool>(), 0u8..4, any::<u16>(), any::<u16>()), check_fault)
                .rates(&[("truncated", 0.15), ("typeinfo_bit_flipped", 0.15), ("length_field_corrupted", 0.08), ("typeinfo_replaced", 0.15)])
                .boxed(),
            sub("serde_length_limits", tier.pick(3_000, 40_000), (0u8..3, prop_oneof![2 => 0xfff0u32..0x10004, 1 => 0xfffcu32..0x10001, 1 => 0u32..0x10000], any::<u8>()), check_serde_limits).rates(&[("at_length_limit", 0.2)]).boxed(),
            sub("dlt_args_macro", tier.pick(20_000, 200_000), (any::<u32>(), any::<i16>(), any::<bool>(), "[ -~]{0,20}", any::<f64>()), check_dlt_args).boxed(),
            crate::fuzzing::fuzz_sub("args", "fuzz_args", tier.pick(50_000, 500_000)),
        ],
        workers: 16,
    }
}
