//! C10 Time sorting is a permutation, and ordered under bounded delay
use crate::engine::*;
use crate::model::trace::*;
use crate::{ensure, ensure_eq};
use adlt::dlt::*;
use adlt::lifecycle::Lifecycle;
use adlt::utils::buffer_sort_messages;
use proptest::prelude::*;
use serde::{Deserialize, Serialize};

#[derive(Clone, Debug, Serialize, Deserialize)]
struct SEv {
    lc_sel: u16,
    dt: u32,        // reception delta in 0.1ms
    delay_sel: u16, // fraction of the allowed delay
    kind: u8,       // 0 normal, 1 control request, 2 calculated time beyond reception (capped)
    extra: u32,
}
#[derive(Clone, Debug, Serialize, Deserialize)]
struct SortCase {
    window: u8,
    min_delay: u32, // 0.1 ms
    lcs: Vec<(u8, u32)>, // (ecu, start offset in 0.1 ms)
    evs: Vec<SEv>,
    clock_off: u32,
}

fn sort_case(max_evs: usize) -> impl Strategy<Value = SortCase> {
    (
        1u8..=10,
        prop_oneof![2 => Just(0u32), 3 => 0u32..20_000, 3 => 0u32..600_000],
        prop::collection::vec((0u8..3, prop_oneof![Just(0u32), 0u32..100_000, 0u32..3_000_000]), 1..6),
        prop::collection::vec(
            (any::<u16>(), prop_oneof![4 => 0u32..200, 4 => 0u32..20_000, 1 => 0u32..400_000], any::<u16>(), prop_oneof![8 => Just(0u8), 1 => Just(1u8), 1 => Just(2u8)], 0u32..100_000)
                .prop_map(|(lc_sel, dt, delay_sel, kind, extra)| SEv { lc_sel, dt, delay_sel, kind, extra }),
            0..max_evs,
        ),
        prop_oneof![1 => Just(0u32), 3 => Just(3_000_000u32), 1 => 0u32..3_000_000],
    )
        .prop_map(|(window, min_delay, lcs, evs, clock_off)| SortCase { window, min_delay, lcs, evs, clock_off })
}

fn mk_table(starts: &[(u8, u64)]) -> (LcR, LcW, Vec<u32>) {
    let (r, mut w) = new_lc_map();
    let mut ids = vec![];
    for (ecu, start) in starts {
        let mut m = DltMessage {
            index: 0,
            reception_time_us: *start,
            ecu: ecu_name(*ecu),
            timestamp_dms: 0,
            standard_header: DltStandardHeader { htyp: 0x31, mcnt: 0, len: 0 },
            extended_header: None,
            payload: vec![],
            payload_text: None,
            lifecycle: 0,
        };
        let mut lc = Lifecycle::new(&mut m);
        lc.start_time = *start;
        ids.push(lc.id());
        w.insert(lc.id(), lc);
    }
    w.refresh();
    (r, w, ids)
}

fn run_sort(msgs: Vec<DltMessage>, r: &LcR, window: u8, min_delay_us: u64) -> Result<Vec<DltMessage>, String> {
    let (tx, rx) = std::sync::mpsc::channel();
    for m in msgs {
        tx.send(m).unwrap();
    }
    drop(tx);
    let out = std::cell::RefCell::new(vec![]);
    buffer_sort_messages(rx, &|m| { out.borrow_mut().push(m); Ok(()) }, r, window, min_delay_us).map_err(|e| format!("buffer_sort_messages error {}", e))?;
    Ok(out.into_inner())
}

/// also tells whether a message was released while input was still to come (rendezvous producer)
fn run_sort_measured(msgs: Vec<DltMessage>, r: &LcR, window: u8, min_delay_us: u64) -> Result<(Vec<DltMessage>, bool), String> {
    use std::sync::atomic::{AtomicUsize, Ordering};
    let n = msgs.len();
    let (tx, rx) = std::sync::mpsc::sync_channel(0);
    let sent = std::sync::Arc::new(AtomicUsize::new(0));
    let sent2 = sent.clone();
    let prod = std::thread::spawn(move || {
        for m in msgs {
            if tx.send(m).is_err() {
                break;
            }
            sent2.fetch_add(1, Ordering::SeqCst);
        }
    });
    let out = std::cell::RefCell::new(vec![]);
    let early = std::cell::Cell::new(false);
    let res = buffer_sort_messages(
        rx,
        &|m| {
            if sent.load(Ordering::SeqCst) + 1 < n {
                early.set(true);
            }
            out.borrow_mut().push(m);
            Ok(())
        },
        r,
        window,
        min_delay_us,
    );
    let _ = prod.join();
    res.map_err(|e| format!("buffer_sort_messages error {}", e))?;
    Ok((out.into_inner(), early.get()))
}

fn check_perm(input: &[DltMessage], out: &[DltMessage]) -> Result<(), String> {
    ensure_eq!(out.len(), input.len(), "number of messages after sorting");
    let mut sorted: Vec<&DltMessage> = out.iter().collect();
    sorted.sort_by_key(|m| m.index);
    for (a, b) in input.iter().zip(sorted.iter()) {
        ensure!(a == *b, "output is not a permutation of the input: index {} vs {} (lost, duplicated or altered message)", a.index, b.index);
    }
    Ok(())
}

fn ordered(v: &SortCase, rep: &mut Rep) -> Result<(), String> {
    let starts: Vec<(u8, u64)> = v.lcs.iter().map(|(e, s)| (*e, BASE + *s as u64 * 100)).collect();
    let (r, _w, ids) = mk_table(&starts);
    let min_delay_us = v.min_delay as u64 * 100;
    let mut clock = BASE + v.clock_off as u64 * 100;
    let mut msgs = vec![];
    let mut calcs = vec![];
    let mut used = std::collections::HashSet::new();
    // sticky: the lifecycles of one ECU follow each other (as on a real ECU); otherwise their messages interleave
    let sticky = v.clock_off % 2 == 0;
    let mut current: std::collections::HashMap<u8, usize> = Default::default();
    rep.label_if(sticky, "sequential_lifecycles_per_ecu");
    for (i, e) in v.evs.iter().enumerate() {
        clock += e.dt as u64 * 100;
        let mut li = (e.lc_sel as usize * starts.len()) >> 16;
        if sticky {
            let c = current.entry(starts[li].0).or_insert(li);
            if li > *c {
                *c = li;
            }
            li = *c;
        }
        let (ecu, start) = starts[li];
        used.insert(li);
        let mut m = DltMessage {
            index: i as u32,
            reception_time_us: clock,
            ecu: ecu_name(ecu),
            timestamp_dms: 0,
            standard_header: DltStandardHeader { htyp: 0x31, mcnt: i as u8, len: 0 },
            extended_header: Some(DltExtendedHeader { verb_mstp_mtin: 0x41, noar: 0, apid: DltChar4::from_buf(b"APID"), ctid: DltChar4::from_buf(b"CTID") }),
            payload: vec![i as u8],
            payload_text: None,
            lifecycle: ids[li],
        };
        let calc;
        match e.kind {
            1 => {
                m.extended_header.as_mut().unwrap().verb_mstp_mtin = (3 << 1) | (1 << 4);
                m.timestamp_dms = e.extra; // other clock domain, ignored
                calc = clock;
                rep.label("control_request");
            }
            2 => {
                // lifecycle start + timestamp beyond the reception time -> capped at reception
                let ts = (clock.saturating_sub(start) / 100) as u32 + 1 + e.extra;
                m.timestamp_dms = ts;
                calc = clock;
                rep.label("capped_at_reception");
            }
            _ => {
                // everything that is no control request goes by its calculated time: other message types, control responses,
                // control messages with the other (reserved) type values, messages without extended header
                match e.extra % 8 {
                    4 => {
                        let mtin = [0u8, 2, 3, 4, 7, 15][(e.extra as usize / 8) % 6];
                        m.extended_header.as_mut().unwrap().verb_mstp_mtin = (3 << 1) | (mtin << 4) | (e.extra as u8 / 64 % 2);
                        rep.label("control_message_that_is_no_request");
                    }
                    5 => {
                        m.extended_header = None;
                        m.standard_header.htyp = 0x30;
                    }
                    6 => m.extended_header.as_mut().unwrap().verb_mstp_mtin = (((e.extra / 8) % 3) as u8) << 1 | 0x10 | (e.extra as u8 / 64 % 2),
                    7 => m.extended_header.as_mut().unwrap().verb_mstp_mtin = (((e.extra / 8) % 8) as u8) << 1 | ((e.extra / 64 % 16) as u8) << 4,
                    _ => {}
                }
                if m.is_ctrl_request() {
                    // (type 3, info 1 out of the arbitrary combinations)
                    m.extended_header.as_mut().unwrap().verb_mstp_mtin = 0x41;
                }
                if clock < start {
                    m.timestamp_dms = 0; // start > reception -> capped
                    calc = clock;
                    rep.label("capped_at_reception");
                } else {
                    let max_delay = std::cmp::min(min_delay_us, clock - start);
                    let delay = ((e.delay_sel as u64 * (max_delay / 100 + 1)) >> 16) * 100;
                    m.timestamp_dms = ((clock - delay - start) / 100) as u32;
                    calc = start + m.timestamp_dms as u64 * 100;
                    rep.label_if(delay > 0, "delayed_message");
                }
            }
        }
        ensure!(calc <= clock && clock - calc <= min_delay_us, "generator bug: precondition violated");
        calcs.push(calc);
        msgs.push(m);
    }
    let inversions = calcs.windows(2).any(|w| w[0] > w[1]);
    rep.label_if(inversions, "input_inverted");
    rep.label_if(used.len() >= 2, "ge2_lifecycles");
    rep.nontrivial = used.len() >= 2 && inversions;
    // (a producer thread per case is expensive: measured in a quarter of the cases)
    let (out, early) = if v.evs.len() % 4 == 0 { run_sort_measured(msgs.clone(), &r, v.window, min_delay_us)? } else { (run_sort(msgs.clone(), &r, v.window, min_delay_us)?, false) };
    rep.label_if(early, "released_before_end_of_input");
    check_perm(&msgs, &out)?;
    for w in out.windows(2) {
        let (a, b) = (calcs[w[0].index as usize], calcs[w[1].index as usize]);
        ensure!(a < b || (a == b && w[0].index < w[1].index), "output not ordered by calculated time: msg {} (calc {}) before msg {} (calc {}), window {} s, min delay {} us", w[0].index, a, w[1].index, b, v.window, min_delay_us);
    }
    Ok(())
}

/// permutation for arbitrary input / table
fn any_input(v: &(Vec<Ev>, u8, u32, Vec<u16>, bool), rep: &mut Rep) -> Result<(), String> {
    let (evs, window, min_delay, lc_sel, use_detector) = v;
    let mut msgs = build_messy(evs);
    let (r, _w) = if *use_detector {
        // lifecycle ids and table from the real detector
        let (res, r, w) = run_detector(msgs.clone(), &DetOpts { cross_thread: false, paced: false, want_listing: false }, None);
        ensure_eq!(res.out.len(), msgs.len(), "detector output");
        msgs = res.out;
        rep.label("table_from_detector");
        (r, w)
    } else {
        // arbitrary ids: some in a table of real lifecycles, some unknown
        let (r, w, ids) = mk_table(&[(0, BASE), (1, BASE + 5 * S), (2, BASE - 100 * S)]);
        for (i, m) in msgs.iter_mut().enumerate() {
            let s = if lc_sel.is_empty() { 0 } else { lc_sel[i % lc_sel.len()] };
            m.lifecycle = match s % 5 {
                0 => ids[0],
                1 => ids[1],
                2 => ids[2],
                3 => 0,
                _ => 4_000_000_000 + s as u32, // unknown id
            };
        }
        rep.label("arbitrary_ids");
        (r, w)
    };
    rep.nontrivial = msgs.len() >= 3;
    let out = run_sort(msgs.clone(), &r, *window, *min_delay as u64 * 100)?;
    check_perm(&msgs, &out)
}

pub fn def(tier: Tier) -> PropertyDef {
    PropertyDef {
        id: "C10",
        rule: "A (permutation): messy traces with lifecycle ids/table from the real detector or arbitrary ids (known, 0, unknown) against a table of real Lifecycle values, window 1..10 s, min delay 0..60 s; output must be a permutation (whole-message equality). B (ordering): 1..5 lifecycles on 1..3 ECUs with known starts, non-decreasing reception clock, per message a delay in [0, min delay] (all times multiples of 0.1 ms so the bound holds exactly), control requests and messages whose start+timestamp exceeds the reception time (capped); output ordered by (calculated time, input index). Non-trivial (B): >=2 lifecycles used and >=1 inversion in the input.",
        assumptions: vec!["calculated time recomputed by the harness from the statement: min(lifecycle start + timestamp, reception); reception for control requests", "input indices increase in input order (as every producer in adlt numbers them)"],
        subs: vec![
            sub("ordered_under_bound", tier.pick(600_000, 8_000_000), sort_case(60), ordered).rates(&[("input_inverted", 0.3), ("ge2_lifecycles", 0.3), ("capped_at_reception", 0.2), ("control_request", 0.2), ("control_message_that_is_no_request", 0.2), ("delayed_message", 0.4), ("released_before_end_of_input", 0.1)]).boxed(),
            sub("ordered_long", tier.pick(30_000, 400_000), sort_case(600), ordered).boxed(),
            sub("permutation_any_input", tier.pick(400_000, 5_000_000), (prop::collection::vec(ev(3), 0..80), 1u8..=10, prop_oneof![Just(0u32), 0u32..600_000], prop::collection::vec(any::<u16>(), 0..8), any::<bool>()), any_input)
                .rates(&[("table_from_detector", 0.3), ("arbitrary_ids", 0.3)])
                .boxed(),
        ],
        workers: 16,
    }
}
