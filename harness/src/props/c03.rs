//! C03 No input content can crash ingestion and analysis
use crate::chain::{alloc_limit, chain};
use crate::engine::*;
use crate::ensure;
use crate::model::trace::*;
use proptest::prelude::*;
use serde::{Deserialize, Serialize};
use std::sync::OnceLock;

/// open findings that are keyed by a panic signature: (finding id, file suffix, message part)
fn open_panic_signatures() -> &'static Vec<(String, String, String)> {
    static S: OnceLock<Vec<(String, String, String)>> = OnceLock::new();
    S.get_or_init(|| {
        load_known_findings()
            .into_iter()
            .filter(|k| k.status == "open")
            .filter_map(|k| {
                let c = k.class.clone()?;
                let rest = c.strip_prefix("panic:")?;
                let (f, m) = rest.split_once('|')?;
                Some((k.id.clone(), f.to_string(), m.to_string()))
            })
            .collect()
    })
}

static LEAKED_IDS: OnceLock<std::sync::Mutex<Vec<&'static str>>> = OnceLock::new();
fn leak_id(id: &str) -> &'static str {
    let m = LEAKED_IDS.get_or_init(|| std::sync::Mutex::new(vec![]));
    let mut g = m.lock().unwrap();
    if let Some(x) = g.iter().find(|x| **x == id) {
        return x;
    }
    let s: &'static str = Box::leak(id.to_string().into_boxed_str());
    g.push(s);
    s
}

/// run the chain on one input; panics that match an open finding's signature are excluded (counted), everything else fails
pub fn run_chain(ext: &str, data: &[u8], with_plugins: bool, rep: &mut Rep, is_corpus_identical: bool) -> Result<(), String> {
    let _ = take_panics();
    let r = std::panic::catch_unwind(std::panic::AssertUnwindSafe(|| chain(ext, data, with_plugins)));
    let panics = take_panics();
    if !panics.is_empty() && panics.iter().all(|p| p.contains("PoisonError")) {
        // a lock of adlt's global state was poisoned by the panic of an earlier case of this process (that case has
        // been reported): what follows in this process says nothing about this input
        rep.label("after_poisoned_lock");
        return Ok(());
    }
    if !panics.is_empty() || r.is_err() {
        let sigs = open_panic_signatures();
        let mut known: Option<&'static str> = None;
        for p in &panics {
            let (loc, msg) = p.split_once(" | ").unwrap_or((p.as_str(), ""));
            let file = loc.rsplit_once(':').map_or(loc, |x| x.0);
            match sigs.iter().find(|(_, f, m)| file.ends_with(f.as_str()) && msg.contains(m.as_str())) {
                Some((id, _, _)) => known = Some(leak_id(id)),
                None => return Err(format!("panic in the chain ({} input, {} bytes): {}", ext, data.len(), panics.join(" || "))),
            }
        }
        if let Some(k) = known {
            rep.known = Some(k);
            return Ok(());
        }
        return Err(format!("panic in the chain ({} input): (no message captured)", ext));
    }
    let st = r.unwrap();
    let lim = alloc_limit(data.len());
    ensure!(st.max_alloc_parse <= lim, "parsing/rendering a {} byte {} input requested a single allocation of {} bytes", data.len(), ext, st.max_alloc_parse);
    ensure!(st.max_alloc_plugins <= lim, "plugins requested a single allocation of {} bytes for a {} byte {} input", st.max_alloc_plugins, data.len(), ext);
    // many medium sized reservations (one per announced transfer, ...) add up: what the plugins hold at the same time
    // stays below 256 MiB + 4096 x input length (building the plugins from the repository configs takes < 40 MiB)
    ensure!(st.peak_live_plugins <= (256 << 20) + 4096 * data.len(), "plugins held {} bytes at the same time for a {} byte {} input", st.peak_live_plugins, data.len(), ext);
    if std::env::var("VERIF_DEBUG").is_ok() {
        eprintln!("peak_live_plugins {} for {} bytes", st.peak_live_plugins, data.len());
    }
    rep.label_if(st.msgs > 0, "yielded_messages");
    rep.label_if(st.lifecycles > 1, "ge2_lifecycles");
    rep.nontrivial = st.msgs > 0 && !is_corpus_identical;
    Ok(())
}

// ------------------------------------------------------------------ structured hostile DLT
#[derive(Debug, Clone, Serialize, Deserialize)]
pub struct M {
    secs: u32,
    micros: u32,
    ecu: u8,
    flags: u8,
    mcnt: u8,
    tmsp: u32,
    vmm: u8,
    noar: u8,
    apid: u8,
    ctid: u8,
    payload: Vec<u8>,
    len_delta: i8,
    serial: bool,
}
const ECUS: [&[u8; 4]; 4] = [b"ECU1", b"Ecu1", b"CAN1", b"E\0\0\0"];
const IDS: [&[u8; 4]; 9] = [b"APID", b"SYS\0", b"JOUR", b"TC\0\0", b"FILE", b"DA1\0", b"\0\0\0\0", b"MMSG", b"MDLT"];
fn u32v() -> impl Strategy<Value = u32> {
    prop_oneof![Just(0u32), Just(1), Just(u32::MAX), Just(0x7fff_ffff), Just(0x8000_0000), 0u32..70000, any::<u32>()]
}
fn arg(be: bool) -> impl Strategy<Value = Vec<u8>> {
    let ti = prop_oneof![
        6 => (prop_oneof![Just(0x10u32), Just(0x20), Just(0x40), Just(0x80), Just(0x200), Just(0x8200), Just(0x400), Just(0x10200), Just(0x18200), Just(0x100), Just(0x800 | 0x40), Just(0x1000 | 0x80), Just(0x2000), Just(0x4000)], 0u32..8).prop_map(|(t, l)| t | l),
        1 => any::<u32>()
    ];
    (ti, prop::collection::vec(any::<u8>(), 0..24), prop_oneof![Just(None), any::<u16>().prop_map(Some)]).prop_map(move |(ti, body, lenov)| {
        let mut o = if be { ti.to_be_bytes().to_vec() } else { ti.to_le_bytes().to_vec() };
        if ti & 0x600 != 0 {
            let l = lenov.unwrap_or(body.len() as u16);
            o.extend_from_slice(&if be { l.to_be_bytes() } else { l.to_le_bytes() });
        }
        o.extend_from_slice(&body);
        o
    })
}
fn n32(v: u32, be: bool) -> Vec<u8> {
    if be {
        v.to_be_bytes().to_vec()
    } else {
        v.to_le_bytes().to_vec()
    }
}
fn n16(v: u16, be: bool) -> Vec<u8> {
    if be {
        v.to_be_bytes().to_vec()
    } else {
        v.to_le_bytes().to_vec()
    }
}
fn sarg(s: &[u8], be: bool) -> Vec<u8> {
    let mut o = n32(0x200, be);
    o.extend(n16(s.len() as u16, be));
    o.extend_from_slice(s);
    o
}
fn uarg(v: u32, be: bool) -> Vec<u8> {
    let mut o = n32(0x43, be);
    o.extend(n32(v, be));
    o
}
fn rarg(d: &[u8], be: bool) -> Vec<u8> {
    let mut o = n32(0x400, be);
    o.extend(n16(d.len() as u16, be));
    o.extend_from_slice(d);
    o
}
/// (vmm, noar, payload)
fn payload(be: bool) -> impl Strategy<Value = (u8, u8, Vec<u8>)> {
    prop_oneof![
        4 => (prop::collection::vec(arg(be), 0..6), any::<u8>()).prop_map(|(args, mt)| (0x01 | (mt & 0xfe), args.len() as u8, args.concat())),
        2 => (u32v(), prop::collection::vec(any::<u8>(), 0..40), prop_oneof![Just(3u8 << 1 | 1 << 4), Just(3 << 1 | 2 << 4), Just(3 << 1 | 3 << 4), Just(0u8), Just(2 << 1 | 1 << 4)]).prop_map(move |(id, body, vmm)| {
            let mut p = n32(id, be);
            p.extend(body);
            (vmm, 1, p)
        }),
        // control responses of every known service with short/oversized bodies
        4 => (prop_oneof![Just(3u32), Just(19), Just(0xF01), Just(0xF02), Just(0xF03), Just(0xF04), Just(20), Just(1), Just(0x13), Just(0xF05), Just(0xF07)], 0u8..9, prop::collection::vec(any::<u8>(), 0..60), u32v(), prop::collection::vec(prop_oneof![Just(0u16), Just(1), Just(0xffff), 0u16..40], 0..6)).prop_map(move |(sid, ret, body, l, lens)| {
            let mut p = n32(sid, be);
            p.push(ret);
            if sid == 19 {
                p.extend(n32(l, be));
            }
            if sid == 3 {
                // get log info: nr of apps, then (apid, nr ctx, (ctid, ll, ts, len desc, desc)*, len desc, desc)*
                for (i, x) in lens.iter().enumerate() {
                    p.extend(n16(*x, be));
                    if i % 2 == 0 {
                        p.extend_from_slice(b"APID");
                    }
                }
            }
            p.extend(body);
            (3 << 1 | 2 << 4, 1, p)
        }),
        1 => (prop::collection::vec(arg(be), 0..3)).prop_map(|args| (0x01 | 3 << 1 | 2 << 4, args.len() as u8, args.concat())),
        2 => (u32v(), u32v(), prop_oneof![0u32..4096, u32v()], prop_oneof![0u32..4096, u32v()], "[a-z/.]{0,12}").prop_map(move |(serial, size, nr, buf, name)| {
            let mut n = name.into_bytes();
            n.push(0);
            let p = [sarg(b"FLST\0", be), uarg(serial, be), sarg(&n, be), uarg(size, be), sarg(b"d\0", be), uarg(nr, be), uarg(buf, be), sarg(b"FLST\0", be)].concat();
            (0x41, 8, p)
        }),
        2 => (0u32..3, u32v(), prop::collection::vec(any::<u8>(), 0..30)).prop_map(move |(serial, nr, d)| {
            let mut pn = n32(0x23, be);
            pn.extend(n32(nr, be));
            let p = [sarg(b"FLDA\0", be), uarg(serial, be), pn, rarg(&d, be), sarg(b"FLDA\0", be)].concat();
            (0x41, 5, p)
        }),
        1 => (0u32..3).prop_map(move |serial| {
            let p = [sarg(b"FLFI\0", be), uarg(serial, be), sarg(b"FLFI\0", be)].concat();
            (0x41, 3, p)
        }),
        // nw trace ipc / can shapes (someip / can plugin)
        3 => (prop_oneof![Just(9usize), Just(10), Just(12), 0usize..16], prop::collection::vec(any::<u8>(), 0..16), prop_oneof![Just(vec![0xfau8, 0x62, 0x03, 0xe8]), prop::collection::vec(any::<u8>(), 0..4)], prop::collection::vec(any::<u8>(), 0..40), any::<bool>()).prop_map(move |(alen, a, sid, b, can)| {
            let mut a = a;
            a.resize(alen, 1);
            let mut body = sid;
            body.extend(b);
            (0x01 | 2 << 1 | if can { 2 << 4 } else { 1 << 4 }, 2, [rarg(&a, be), rarg(&body, be)].concat())
        }),
        // segmented someip
        1 => (prop::sample::select(vec![&b"NWST\0"[..], &b"NWCH\0"[..], &b"NWEN\0"[..]]), u32v(), prop::collection::vec(arg(be), 0..4)).prop_map(move |(t, id, rest)| {
            let mut p = sarg(t, be);
            p.extend(rarg(&id.to_le_bytes(), be));
            let n = 2 + rest.len() as u8;
            p.extend(rest.concat());
            (0x01 | 2 << 1 | 1 << 4, n, p)
        }),
        // muniic shape with odd values
        1 => (prop::collection::vec(arg(be), 0..14)).prop_map(move |args| (0x01, args.len() as u8, [sarg(b"HmiP\0", be), args.concat()].concat())),
    ]
}
fn m() -> impl Strategy<Value = M> {
    any::<bool>().prop_flat_map(|be| {
        (
            prop_oneof![Just(1_600_000_000u32), 1_600_000_000u32..1_600_001_000, u32v()],
            0u32..1_000_000,
            0u8..4,
            0u8..32,
            any::<u8>(),
            u32v(),
            payload(be),
            0u8..9,
            0u8..9,
            prop_oneof![8 => Just(0i8), 1 => -8i8..8],
        )
            .prop_map(move |(secs, micros, ecu, flags, mcnt, tmsp, (vmm, noar, payload), apid, ctid, len_delta)| M { secs, micros, ecu, flags: (flags & !2) | if be { 2 } else { 0 }, mcnt, tmsp, vmm, noar, apid, ctid, payload, len_delta, serial: false })
    })
}
fn enc(x: &M, serial: bool, out: &mut Vec<u8>) {
    if serial {
        out.extend_from_slice(b"DLS\x01");
    } else {
        out.extend_from_slice(b"DLT\x01");
        out.extend_from_slice(&x.secs.to_le_bytes());
        out.extend_from_slice(&x.micros.to_le_bytes());
        out.extend_from_slice(ECUS[x.ecu as usize % 4]);
    }
    let f = x.flags;
    let extra = (if f & 4 != 0 { 4 } else { 0 }) + (if f & 8 != 0 { 4 } else { 0 }) + (if f & 16 != 0 { 4 } else { 0 }) + (if f & 1 != 0 { 10 } else { 0 });
    let len = (4 + extra + x.payload.len()) as i32 + x.len_delta as i32;
    out.push(f | 0x20);
    out.push(x.mcnt);
    out.extend_from_slice(&(len.clamp(0, 65535) as u16).to_be_bytes());
    if f & 4 != 0 {
        out.extend_from_slice(ECUS[(x.ecu as usize + 1) % 4]);
    }
    if f & 8 != 0 {
        out.extend_from_slice(&[0, 0, 0, 1]);
    }
    if f & 16 != 0 {
        out.extend_from_slice(&x.tmsp.to_be_bytes());
    }
    if f & 1 != 0 {
        out.push(x.vmm);
        out.push(x.noar);
        out.extend_from_slice(IDS[x.apid as usize % 9]);
        out.extend_from_slice(IDS[x.ctid as usize % 9]);
    }
    out.extend_from_slice(&x.payload);
}

fn structured(v: &(Vec<M>, bool, bool), rep: &mut Rep) -> Result<(), String> {
    let (ms, serial, plugins) = v;
    let mut d = vec![];
    for x in ms {
        enc(x, *serial, &mut d);
    }
    rep.label_if(*serial, "serial_framing");
    rep.label_if(*plugins, "with_plugins");
    run_chain("dlt", &d, *plugins, rep, false)
}

// ------------------------------------------------------------------ mutated corpus
#[derive(Debug, Clone, Serialize, Deserialize)]
pub enum MutOp {
    Flip(u16, u8),
    Set(u16, u8),
    Truncate(u16),
    Splice(u16, u16, u16),
    Insert(u16, Vec<u8>),
    Magic(u16, u8),
}
const MAGIC: [u32; 8] = [0, 1, 0xffff_ffff, 0x7fff_ffff, 0x8000_0000, 0xffff, 0x0100_0000, 0x0000_0100];

fn corpus() -> &'static Vec<(String, Vec<u8>)> {
    static C: OnceLock<Vec<(String, Vec<u8>)>> = OnceLock::new();
    C.get_or_init(|| {
        let mut v = vec![];
        let mut names: Vec<_> = std::fs::read_dir(crate::chain::repo_tests()).map(|rd| rd.flatten().map(|e| e.path()).collect()).unwrap_or_default();
        names.sort();
        for p in names {
            let ext = p.extension().and_then(|e| e.to_str()).unwrap_or("").to_string();
            if ["dlt", "asc", "txt", "log"].contains(&ext.as_str()) {
                if let Ok(mut data) = std::fs::read(&p) {
                    // several windows of bigger files
                    if data.len() > 36_000 {
                        // windows starting at a message / line boundary at 1/4, 1/2 and 3/4 of the file
                        for q in 1..4 {
                            let mid = data.len() / 4 * q;
                            let start = if ext == "dlt" { data[mid..].windows(4).position(|w| w == b"DLT\x01") } else { data[mid..].iter().position(|b| *b == b'\n').map(|p| p + 1) };
                            if let Some(off) = start {
                                v.push((ext.clone(), data[mid + off..std::cmp::min(data.len(), mid + off + 36_000)].to_vec()));
                            }
                        }
                        data.truncate(36_000);
                    }
                    v.push((ext, data));
                }
            }
        }
        // generated clean trace with a file transfer
        let e = EcuTrace { ecu: 0, start_off_us: 0, boots: vec![Boot { off_us: 1000, delay_us: 500, msgs: (0..40).map(|i| CMsg { ts_dms: i * 1000, apid: (i % 4) as u8, ctid: (i % 3) as u8, word: (i % 8) as u8, level: 4 }).collect() }, Boot { off_us: 5_000_000, delay_us: 100, msgs: (0..20).map(|i| CMsg { ts_dms: i * 10, apid: 0, ctid: 0, word: 1, level: 2 }).collect() }] };
        let mut bytes = vec![];
        for (m, _) in e.build().0 {
            m.to_write(&mut bytes).unwrap();
        }
        v.push(("dlt".to_string(), bytes));
        v
    })
}

fn mutated(v: &(u16, Vec<MutOp>, bool), rep: &mut Rep) -> Result<(), String> {
    let (which, ops, plugins) = v;
    let c = corpus();
    if c.is_empty() {
        return Err("harness: empty corpus".into());
    }
    let (ext, base) = &c[(*which as usize * c.len()) >> 16];
    let mut d = base.clone();
    for op in ops {
        let pos = |p: u16, len: usize| (p as usize * (len + 1)) >> 16;
        match op {
            MutOp::Flip(p, b) => {
                if !d.is_empty() {
                    let i = pos(*p, d.len() - 1);
                    d[i] ^= 1 << (b % 8);
                }
            }
            MutOp::Set(p, v) => {
                if !d.is_empty() {
                    let i = pos(*p, d.len() - 1);
                    d[i] = *v;
                }
            }
            MutOp::Truncate(p) => {
                let i = pos(*p, d.len());
                d.truncate(i);
            }
            MutOp::Splice(a, l, b) => {
                if !d.is_empty() {
                    let s = pos(*a, d.len() - 1);
                    let e = std::cmp::min(d.len(), s + (*l as usize % 4096));
                    let chunk = d[s..e].to_vec();
                    let t = pos(*b, d.len());
                    let tail = d.split_off(t);
                    d.extend(chunk);
                    d.extend(tail);
                }
            }
            MutOp::Insert(p, bytes) => {
                let t = pos(*p, d.len());
                let tail = d.split_off(t);
                d.extend_from_slice(bytes);
                d.extend(tail);
            }
            MutOp::Magic(p, k) => {
                if d.len() >= 4 {
                    let i = pos(*p, d.len() - 4);
                    let v = MAGIC[*k as usize % 8];
                    let b = if k & 8 != 0 { v.to_be_bytes() } else { v.to_le_bytes() };
                    d[i..i + 4].copy_from_slice(&b);
                }
            }
        }
    }
    rep.label(match ext.as_str() {
        "dlt" => "corpus_dlt",
        "asc" => "corpus_asc",
        "txt" => "corpus_logcat",
        _ => "corpus_genlog",
    });
    let identical = d == *base;
    run_chain(ext, &d, *plugins, rep, identical)
}

// ------------------------------------------------------------------ text grammars
fn num() -> impl Strategy<Value = String> {
    prop_oneof!["[0-9]{1,3}", "-?[0-9]{1,4}\\.[0-9]{6}", "[0-9]{15,22}\\.[0-9]{6}", "-[0-9]{12,19}\\.[0-9]{6}", "-?[0-9]{5,11}\\.[0-9]{1,9}", Just("0".to_string()), Just("99999".to_string()), Just("18446744073709551615.999999".to_string())]
}
fn asc_line() -> impl Strategy<Value = String> {
    prop_oneof![
        2 => "date (Mon|Tue|Xxx) (Apr|Foo|Dec) [0-9]{1,2} [0-9]{2}:[0-9]{2}:[0-9]{2}(\\.[0-9]{3})? (am|pm)? ?[0-9]{4}",
        2 => "date (Mon|Thu) (Jan|Apr|Dec) (1|10|31) (00|01|12|23):[0-9]{2}:[0-9]{2}(\\.[0-9]{3})? (am|pm)? ?(0001|0243|1969|1970|9999)",
        1 => Just("base hex  timestamps absolute".to_string()),
        6 => (num(), num(), "[0-9a-fx]{1,9}", prop_oneof![Just("Rx"), Just("Tx")], num(), prop::collection::vec(prop_oneof![8 => "[0-9a-f]{2}", 1 => "[0-9a-fä€]{1,3}"], 0..10)).prop_map(|(t, c, id, rx, l, d)| format!("   {} {}  {}             {}   d {} {}{}", t, c, id, rx, l, d.join(" "), ["", " ", " Length = 0 BitCount = 0 ID = 1", " x"][d.len() % 4])),
        3 => (num(), num(), "[0-9a-fx]{1,9}", num(), num(), prop::collection::vec("[0-9a-f]{2}", 0..10)).prop_map(|(t, c, id, a, l, d)| format!("   {} CANFD   {} Rx        {}                                   {} 0 {}  {} {}", t, c, id, a, l, l, d.join(" "))),
        1 => (num(), num()).prop_map(|(t, c)| format!("   {} CANFD   {} Rx ErrorFrame", t, c)),
        1 => (num(), num()).prop_map(|(t, c)| format!("   {} {}  ErrorFrame", t, c)),
        2 => "// [0-9 ]{0,3}(BusMapping: CAN [0-9]{1,12} = [A-Za-z_]{0,8})?.{0,10}",
        // frames and bus names whose length reaches the 16 bit message length
        1 => (prop_oneof![60 => 20usize..600, 1 => 65_500usize..65_540, 1 => Just(65_520usize)], any::<bool>(), num()).prop_map(|(n, fd, t)| if fd { format!("   {} CANFD   1 Rx        1                                   1 0 8 {}{} x", t, n, " 00".repeat(n)) } else { format!("   {} 1  1             Rx   d {}{} x", t, n, " 00".repeat(n)) }),
        1 => (prop_oneof![60 => 9usize..300, 1 => 65_490usize..65_530], 1u8..4).prop_map(|(n, id)| format!("//BusMapping: CAN {} = {}", id, "a".repeat(n))),
        1 => ".{0,40}"
    ]
}
fn logcat_line() -> impl Strategy<Value = String> {
    prop_oneof![
        6 => ("([0-9]{4}-)?[0-9]{2}-[0-9]{2}", "[0-9]{2}:[0-9]{2}:[0-9]{2}\\.[0-9]{3,6}", "[ ]{0,3}[0-9]{1,7}", "[ ]{0,3}[0-9]{1,7}", "[VDIWEFX]", "[A-Za-z_.äß]{0,30}", ".{0,30}").prop_map(|(d, t, p, ti, l, tag, txt)| format!("{} {} {} {} {} {}: {}", d, t, p, ti, l, tag, txt)),
        2 => (prop_oneof![Just("01-01".to_string()), Just("12-31".to_string()), Just("1970-01-01".to_string()), Just("1969-12-31".to_string()), Just("0001-01-01".to_string()), Just("9999-12-31".to_string())], "(00|12|23):[0-9]{2}:[0-9]{2}\\.[0-9]{3}", "[VDIWEF]", "[A-Za-z]{0,8}").prop_map(|(d, t, l, tag)| format!("{} {}  1234  5678 {} {}: boundary", d, t, l, tag)),
        2 => ("[0-9]{1,12}\\.[0-9]{3}", "[VDIWEF]", "[A-Za-z]{0,8}", ".{0,20}").prop_map(|(t, l, tag, txt)| format!("{} {} {} {} {}: {}", t, 1, 2, l, tag, txt)),
        1 => ("[0-9]{13,22}\\.[0-9]{1,9}", "[VDIWEF]", "[A-Za-z]{0,8}").prop_map(|(t, l, tag)| format!("{} {} {} {} {}: huge", t, 1, 2, l, tag)),
        // tags: very long ones, short ones with non-ASCII characters (several different ones per file)
        1 => (prop_oneof![80 => 200usize..3000, 1 => Just(65_520usize), 1 => Just(65_536usize), 1 => 60_000usize..70_000], "[VDIWEF]").prop_map(|(n, l)| format!("1.000 12 34 {} {}: long tag", l, "a".repeat(n))),
        2 => (prop::sample::select(vec!["abä", "abö", "abü", "ä", "ö", "aäb", "bäb", "äö", "ß", "aß€"]), "[VDIWEF]", any::<bool>()).prop_map(|(t, l, mono)| if mono { format!("1.000 12 34 {} {}: short tag", l, t) } else { format!("01-01 00:00:01.000 12 34 {} {}: short tag", l, t) }),
        1 => Just("--------- beginning of main".to_string()),
        1 => ".{0,60}"
    ]
}
fn genlog_line() -> impl Strategy<Value = String> {
    prop_oneof![
        2 => ("[0-9]{2}", prop::sample::select(vec!["", " ", "  ", "\t", "\u{a0}", "ä", "ää"])).prop_map(|(sec, tag)| format!("[2024-01-01 00:00:{}.000] [INF] [{}] blank or odd tag", sec, tag)),
        6 => ("[0-9]{4}-[0-9]{2}-[0-9]{2}", "[0-9]{2}:[0-9]{2}:[0-9]{2}(\\.[0-9]{1,9})?", "[A-Z]{0,4}", "[a-zA-Z0-9 ]{0,10}", ".{0,30}").prop_map(|(d, t, l, a, txt)| format!("[{} {}] [{}] [{}] {}", d, t, l, a, txt)),
        1 => ("(0000|1969|9999)-(00|01|12|13)-(00|01|31|32)", "(00|23|24|99):[0-9]{2}:[0-9]{2}").prop_map(|(d, t)| format!("[{} {}] [ERR] [app] boundary", d, t)),
        1 => ".{0,60}"
    ]
}
/// unicode look-alikes: the converters' regular expressions use the unicode aware `\s` / `\d` classes, so a
/// no-break space or an arabic-indic digit is accepted where the code behind counts bytes
fn unicodify(line: &str, sel: u16) -> String {
    let cands: Vec<(usize, char)> = line.char_indices().filter(|(_, c)| *c == ' ' || c.is_ascii_digit()).collect();
    if cands.is_empty() {
        return line.to_string();
    }
    let (pos, c) = cands[(sel as usize * cands.len()) >> 16];
    let repl = if c == ' ' {
        ['\u{a0}', '\u{2003}', '\u{3000}', '\t'][sel as usize % 4]
    } else {
        let d = c as u32 - '0' as u32;
        char::from_u32([0x660u32, 0xff10, 0x6f0, 0x966][sel as usize % 4] + d).unwrap()
    };
    let mut o = String::with_capacity(line.len() + 3);
    o.push_str(&line[..pos]);
    o.push(repl);
    o.push_str(&line[pos + 1..]);
    o
}

fn text(v: &(u8, Vec<String>, bool), rep: &mut Rep) -> Result<(), String> {
    let (kind, lines, crlf) = v;
    let ext = ["asc", "txt", "log"][*kind as usize % 3];
    // a line ending in "\u{1}<n>" asks for a unicode look-alike at the n-th candidate position
    let lines: Vec<String> = lines
        .iter()
        .map(|l| match l.rsplit_once('\u{1}') {
            Some((body, n)) => {
                rep.label("unicode_lookalike");
                unicodify(body, n.parse().unwrap_or(0))
            }
            None => l.clone(),
        })
        .collect();
    rep.label_if(lines.iter().any(|l| l.len() > 60_000), "line_gt_60000_bytes");
    let d = lines.join(if *crlf { "\r\n" } else { "\n" });
    rep.label(["text_asc", "text_logcat", "text_genlog"][*kind as usize % 3]);
    run_chain(ext, d.as_bytes(), false, rep, false)
}

pub fn def(tier: Tier) -> PropertyDef {
    let mutop = prop_oneof![
        4 => (any::<u16>(), 0u8..8).prop_map(|(a, b)| MutOp::Flip(a, b)),
        3 => (any::<u16>(), any::<u8>()).prop_map(|(a, b)| MutOp::Set(a, b)),
        1 => any::<u16>().prop_map(MutOp::Truncate),
        2 => (any::<u16>(), any::<u16>(), any::<u16>()).prop_map(|(a, b, c)| MutOp::Splice(a, b, c)),
        1 => (any::<u16>(), prop::collection::vec(any::<u8>(), 0..12)).prop_map(|(a, b)| MutOp::Insert(a, b)),
        3 => (any::<u16>(), 0u8..16).prop_map(|(a, b)| MutOp::Magic(a, b)),
    ];
    PropertyDef {
        id: "C03",
        rule: "one chain function (get_dlt_message_iterator for dlt/serial/asc/txt/log -> header/payload text, argument iteration, to_write, EacStats -> lifecycle detection -> sorted listing and all accessors -> time sort -> filter battery (literal, regex, fancy-regex look-arounds, level, lifecycle, type) -> all plugins built from the repository configs + anonymiser) is run on (1) structured hostile DLT streams (lengths, every type-info class incl. VARI/FIXP/ARAY/STRU/unknown TYLE, string/raw lengths beyond the payload, control messages of every service id with truncated/oversized bodies incl. GET_LOG_INFO tables, verbose control responses, timestamps 0/u32::MAX/beyond reception, file transfer announcements with hostile sizes, SOME/IP, CAN and Muniic trigger shapes, both framings), (2) mutated corpora (repository example files truncated to 36 KB + generated trace; bit flips, byte sets, truncation, splice, insert, magic 32-bit values), (3) grammar based asc/logcat/genlog lines (all timestamp formats, huge/negative numbers, date boundaries, non-ASCII data bytes). Oracle: no panic/abort/overflow (overflow checks and debug assertions on), no single allocation > 64 MiB + 64 x input length in the parsing and plugin scopes. Non-trivial: the iterator yielded >= 1 message and the input is not byte-identical to a corpus file.",
        assumptions: vec!["the capacity hints of the detector (10M messages) and sorter (1M) are constants of the code and outside the allocation oracle", "blf is not in the property's list and not driven", "open finding signatures (known_findings.json, class panic:<file>|<message>) are tolerated and counted"],
        subs: vec![
            sub("structured_dlt", tier.pick(40_000, 1_000_000), (prop::collection::vec(m(), 1..25), prop::bool::weighted(0.15), prop::bool::weighted(0.6)), structured).rates(&[("yielded_messages", 0.7), ("serial_framing", 0.05)]).boxed(),
            sub("mutated_corpus", tier.pick(15_000, 400_000), (any::<u16>(), prop::collection::vec(mutop, 0..12), prop::bool::weighted(0.5)), mutated).rates(&[("yielded_messages", 0.7), ("corpus_dlt", 0.2), ("corpus_asc", 0.1), ("corpus_logcat", 0.1)]).shrink_iters(500).boxed(),
            sub("plugin_protocols", tier.pick(20_000, 500_000), prop_oneof![
                9 => prop::collection::vec(crate::props::proto::pitem(), 1..40),
                // many announcements of transfers / segmented messages (each one may make the plugin reserve memory)
                1 => prop::collection::vec(prop_oneof![
                    3 => (any::<u8>(), any::<u8>(), any::<u8>(), 10u8..14, 10u8..14, any::<u8>()).prop_map(|(serial, name, size, pkgs, buf, width)| crate::props::proto::PItem::Flst { serial, name, size, pkgs, buf, width: width | 0x2a, be: false }),
                    1 => (any::<u8>(), any::<u8>()).prop_map(|(id, hdr)| crate::props::proto::PItem::Nwst { id, hdr, n: 7, cs: 7, be: false }),
                    1 => crate::props::proto::pitem(),
                ], 60..200),
            ], plugin_protocols).rates(&[("yielded_messages", 0.9), ("someip_chunk_after_start", 0.2), ("transfer_data_after_start", 0.2)]).boxed(),
            sub("binary_convert", tier.pick(480, 12_000), (0u8..6).prop_flat_map(|k| {
                let line = match k % 3 {
                    0 => asc_line().boxed(),
                    1 => logcat_line().boxed(),
                    _ => genlog_line().boxed(),
                };
                let line = (line, prop::option::weighted(0.12, any::<u16>())).prop_map(|(l, u)| match u {
                    Some(n) => format!("{}\u{1}{}", l, n),
                    None => l,
                });
                (Just(k), prop::collection::vec(m(), 1..25), prop::collection::vec(crate::props::proto::pitem(), 1..30), any::<u16>(), prop::collection::vec(line, 1..20))
            }), binary_convert).rates(&[("exit_ok", 0.3), ("plugins_from_cli_paths", 0.3), ("text_input", 0.3)]).shrink_iters(60).slow().boxed(),
            sub("tag_flood", tier.pick(32, 200), (any::<bool>(), prop_oneof![1 => Just(999u16), 3 => any::<u16>()], any::<u8>()), tag_flood).shrink_iters(4).boxed(),
            sub("messy_traces", tier.pick(20_000, 500_000), (prop::collection::vec(ev(3), 1..120), prop::bool::weighted(0.3)), messy_bytes).boxed(),
            crate::fuzzing::fuzz_sub("chain_fast", "fuzz_chain_fast", tier.pick(3_000, 30_000)),
            crate::fuzzing::fuzz_sub("chain_plugins", "fuzz_chain_plugins", tier.pick(1_000, 10_000)),
            sub("text_formats", tier.pick(30_000, 800_000), (0u8..3).prop_flat_map(|k| {
                let line = match k {
                    0 => prop_oneof![9 => asc_line().boxed(), 1 => logcat_line().boxed()].boxed(),
                    1 => prop_oneof![9 => logcat_line().boxed(), 1 => genlog_line().boxed()].boxed(),
                    _ => prop_oneof![9 => genlog_line().boxed(), 1 => asc_line().boxed()].boxed(),
                };
                // one line in eight gets a unicode look-alike for one of its blanks or digits
                let line = (line, prop::option::weighted(0.12, any::<u16>())).prop_map(|(l, u)| match u {
                    Some(n) => format!("{}\u{1}{}", l, n),
                    None => l,
                });
                (Just(k), prop::collection::vec(line, 1..20), any::<bool>())
            }), text).rates(&[("yielded_messages", 0.3), ("unicode_lookalike", 0.3)]).boxed(),
        ],
        workers: 16,
    }
}

/// hostile but well-shaped plugin trigger sequences (segmented SOME/IP, file transfers, non-verbose ids, CAN, Muniic)
fn plugin_protocols(v: &Vec<crate::props::proto::PItem>, rep: &mut Rep) -> Result<(), String> {
    use crate::props::proto::PItem;
    let mut d = vec![];
    for (m, _) in crate::props::proto::build(v) {
        m.to_write(&mut d).map_err(|e| e.to_string())?;
    }
    let chunk_after_start = v.iter().enumerate().any(|(i, it)| matches!(it, PItem::Nwch { id, .. } if v[..i].iter().any(|p| matches!(p, PItem::Nwst { id: sid, .. } if sid % 3 == id % 3))));
    let data_after_start = v.iter().enumerate().any(|(i, it)| matches!(it, PItem::Flda { serial, .. } if v[..i].iter().any(|p| matches!(p, PItem::Flst { serial: s2, .. } if s2 % 3 == serial % 3))));
    rep.label_if(chunk_after_start, "someip_chunk_after_start");
    rep.label_if(data_after_start, "transfer_data_after_start");
    run_chain("dlt", &d, true, rep, false)
}

/// the adlt binary itself (argument handling, listing/printing with chrono formatting of hostile times, plugins built
/// from command line paths, export, anonymiser) on hostile files: it ends, is not killed by a signal, does not panic.
/// The exit status is not judged (an unusable input may be refused).
fn binary_convert(v: &(u8, Vec<M>, Vec<crate::props::proto::PItem>, u16, Vec<String>), rep: &mut Rep) -> Result<(), String> {
    use crate::props::c14::Sandbox;
    let (kind, ms, items, opts, lines) = v;
    let mut d = vec![];
    let mut ext = "dlt";
    match kind % 6 {
        3 | 4 | 5 => {
            // text formats (the tools read them twice: second pass with a reference time)
            ext = ["asc", "txt", "log"][*kind as usize % 3];
            let lines: Vec<String> = lines.iter().map(|l| match l.rsplit_once('\u{1}') { Some((body, n)) => unicodify(body, n.parse().unwrap_or(0)), None => l.clone() }).collect();
            d = lines.join("\n").into_bytes();
            rep.label("text_input");
        }
        0 => {
            for x in ms {
                enc(x, false, &mut d);
            }
        }
        1 => {
            for (m, _) in crate::props::proto::build(items) {
                m.to_write(&mut d).map_err(|e| e.to_string())?;
            }
        }
        _ => {
            for x in ms {
                enc(x, true, &mut d);
            }
        }
    }
    let sb = Sandbox::new("c03bin");
    let input = sb.path(&format!("in.{}", ext));
    std::fs::write(&input, &d).map_err(|e| e.to_string())?;
    let t = crate::chain::repo_tests();
    let mut args: Vec<String> = vec!["convert".into()];
    match opts % 4 {
        1 => args.push("-a".into()),
        2 => args.push("-x".into()),
        3 => args.push("-s".into()),
        _ => {}
    }
    if opts & 4 != 0 {
        args.push("--sort".into());
    }
    if opts & 8 != 0 {
        args.extend(["--nonverbose_path".to_string(), t.clone(), "--someip_path".to_string(), t.clone(), "--can_path".to_string(), t.clone(), "--muniic_path".to_string(), format!("{}/muniic", t), "--rewrite_path".to_string(), format!("{}/rewrite.cfg", t)]);
        rep.label("plugins_from_cli_paths");
    }
    if opts & 16 != 0 {
        args.extend(["--file_transfer=*".to_string(), "--file_transfer_path".to_string(), sb.path("ft").to_string_lossy().into_owned()]);
    }
    if opts & 32 != 0 {
        args.extend(["-o".to_string(), sb.path("out.dlt").to_string_lossy().into_owned()]);
    }
    if opts & 64 != 0 {
        args.push("--anon".into());
    }
    if opts & 128 != 0 {
        args.push("--eac=ECU1,:APID:,::TC".into());
    }
    args.push(input.to_string_lossy().into_owned());
    let errp = sb.path("stderr.txt");
    let mut child = std::process::Command::new(crate::engine::adlt_bin())
        .args(&args)
        .env("TZ", "UTC")
        .env("RAYON_NUM_THREADS", "1")
        .env_remove("ADLT_VERIF_CHANNEL_CAP")
        .stdin(std::process::Stdio::null())
        .stdout(std::fs::File::create(sb.path("stdout.txt")).map_err(|e| e.to_string())?)
        .stderr(std::fs::File::create(&errp).map_err(|e| e.to_string())?)
        .spawn()
        .map_err(|e| format!("cannot run {}: {}", crate::engine::adlt_bin().display(), e))?;
    let end = std::time::Instant::now() + std::time::Duration::from_secs(120);
    let status = loop {
        match child.try_wait().map_err(|e| e.to_string())? {
            Some(st) => break st,
            None => {
                if std::time::Instant::now() > end {
                    let _ = child.kill();
                    let _ = child.wait();
                    return Err(format!("adlt {:?} did not end within 120 s on a {} byte file", &args[..args.len() - 1], d.len()));
                }
                std::thread::sleep(std::time::Duration::from_millis(2));
            }
        }
    };
    let stderr = String::from_utf8_lossy(&std::fs::read(&errp).unwrap_or_default()).into_owned();
    {
        use std::os::unix::process::ExitStatusExt;
        ensure!(status.signal().is_none(), "adlt {:?} was killed by signal {:?}; stderr: {}", &args[..args.len() - 1], status.signal(), stderr.chars().take(400).collect::<String>());
    }
    ensure!(!stderr.contains("panicked"), "adlt {:?} panicked: {}", &args[..args.len() - 1], stderr.chars().take(600).collect::<String>());
    rep.label_if(status.success(), "exit_ok");
    rep.nontrivial = status.success() && !d.is_empty();
    Ok(())
}

/// more tags than there are abbreviations (4 character application ids): 9999 numeric tags + non-ASCII ones
fn tag_flood(v: &(bool, u16, u8), rep: &mut Rep) -> Result<(), String> {
    let (genlog, n, extra) = v;
    let n = 9_000 + *n as usize % 1_000; // 9000..9999 numeric tags
    let line = |tag: &str| if *genlog { format!("[2024-01-01 00:00:00.000] [INF] [{}] m\n", tag) } else { format!("1.000 1 1 I {}: m\n", tag) };
    let mut d = String::new();
    d.push_str(&line("äää"));
    for i in 1..=n {
        d.push_str(&line(&format!("{:04}", i)));
    }
    for t in ["ééé", "ööö", "üüü", "ßßß"].iter().take(1 + *extra as usize % 4) {
        d.push_str(&line(t));
    }
    rep.label_if(n == 9_999, "all_numeric_ids_taken");
    let _ = take_panics();
    let r = std::panic::catch_unwind(std::panic::AssertUnwindSafe(|| crate::chain::chain_opts(if *genlog { "log" } else { "txt" }, d.as_bytes(), false, 30_000)));
    let panics = take_panics();
    if !panics.is_empty() && panics.iter().all(|p| p.contains("PoisonError")) {
        return Ok(());
    }
    ensure!(panics.is_empty() && r.is_ok(), "panic in the chain ({} lines with distinct tags): {}", n + 2, panics.join(" || "));
    rep.nontrivial = true;
    Ok(())
}

fn messy_bytes(v: &(Vec<Ev>, bool), rep: &mut Rep) -> Result<(), String> {
    let mut d = vec![];
    for m in build_messy(&v.0) {
        m.to_write(&mut d).map_err(|e| e.to_string())?;
    }
    rep.label("messy_trace");
    run_chain("dlt", &d, v.1, rep, false)
}
