//! C12 Filter sets: positive OR, negative veto, event AND; order and counts kept
use crate::engine::*;
use crate::model::filter::*;
use crate::{ensure, ensure_eq};
use adlt::dlt::DltMessage;
use adlt::filter::functions::filter_as_streams;
use adlt::filter::Filter;
use adlt::utils::remote_utils::{match_filters, StreamContext};
use proptest::prelude::*;

/// reference from the statement
pub fn keep(set: &[AF], m: &FMsg, with_event: bool) -> bool {
    let en = |k: u8| set.iter().filter(move |f| f.enabled && f.kind == k);
    let pos_ok = en(0).next().is_none() || en(0).any(|f| reference_matches(f, m).matches);
    let neg_hit = en(1).any(|f| reference_matches(f, m).matches);
    let ev_ok = !with_event || en(3).next().is_none() || en(3).any(|f| reference_matches(f, m).matches);
    pos_ok && !neg_hit && ev_ok
}

pub fn logger() -> slog::Logger {
    slog::Logger::root(slog::Discard, slog::o!())
}

fn check(v: &(Vec<AF>, Vec<FMsg>), rep: &mut Rep) -> Result<(), String> {
    let (set, msgs) = v;
    let built: Vec<DltMessage> = msgs.iter().enumerate().map(|(i, m)| m.build(i as u32)).collect();
    let js: Vec<String> = set.iter().map(to_json).collect();
    let filters: Vec<Filter> = js.iter().map(|j| Filter::from_json(j).map_err(|e| format!("from_json refused {}: {}", j, e))).collect::<Result<_, _>>()?;
    let n_pos = set.iter().filter(|f| f.enabled && f.kind == 0).count();
    let n_neg = set.iter().filter(|f| f.enabled && f.kind == 1).count();
    let n_ev = set.iter().filter(|f| f.enabled && f.kind == 3).count();
    rep.label_if(n_pos == 0 && n_neg > 0, "only_negative");
    rep.label_if(n_ev >= 2, "ge2_event_filters");
    rep.label_if(n_ev >= 1, "event_filter");
    rep.label_if(set.iter().any(|f| !f.enabled), "disabled_filter");
    rep.label_if(set.iter().any(|f| f.kind == 2), "marker_filter");
    let both = n_pos >= 1 && n_neg >= 1 && msgs.iter().any(|m| set.iter().any(|f| f.enabled && f.kind == 0 && reference_matches(f, m).matches) && set.iter().any(|f| f.enabled && f.kind == 1 && reference_matches(f, m).matches));
    rep.label_if(both, "msg_matched_by_pos_and_neg");
    rep.nontrivial = both || (n_ev >= 2 && !msgs.is_empty());

    // (a) stream filter used by convert
    let (tx, rx) = std::sync::mpsc::channel();
    for m in built.iter().cloned() {
        tx.send(m).unwrap();
    }
    drop(tx);
    let out = std::cell::RefCell::new(vec![]);
    let (passed, filtered) = filter_as_streams(&filters, &rx, &|m| {
        out.borrow_mut().push(m);
        Ok(())
    })
    .map_err(|e| format!("filter_as_streams error {}", e))?;
    let out = out.into_inner();
    let exp: Vec<&DltMessage> = msgs.iter().zip(built.iter()).filter(|(fm, _)| keep(set, fm, false)).map(|(_, m)| m).collect();
    ensure_eq!(passed + filtered, built.len(), "passed + filtered vs received");
    ensure_eq!(passed, out.len(), "passed vs forwarded");
    ensure_eq!(out.iter().map(|m| m.index).collect::<Vec<_>>(), exp.iter().map(|m| m.index).collect::<Vec<_>>(), "filter_as_streams selection (filters {})", js.join(","));
    for (a, b) in out.iter().zip(exp.iter()) {
        ensure!(a == *b, "filter_as_streams altered message {}", a.index);
    }
    // (b) set matcher used by remote/search/export, container built through the public constructor
    let sc = StreamContext::from(&logger(), "stream", &format!(r#"{{"filters":[{}]}}"#, js.join(","))).map_err(|e| format!("StreamContext::from failed: {}", e))?;
    for (fm, m) in msgs.iter().zip(built.iter()) {
        let k = keep(set, fm, true);
        ensure!(match_filters(m, &sc.filters) == k, "match_filters decides {} but the rule says {} for message {} (filters {})", !k, k, m.index, js.join(","));
        if n_ev == 0 {
            ensure!(k == keep(set, fm, false), "harness");
        }
    }
    ensure_eq!(sc.filters_active, n_pos + n_neg + n_ev > 0, "filters_active");
    Ok(())
}

/// the export plugin keeps enabled filters and writes exactly the kept messages (after its info message)
fn export_plugin(v: &(Vec<AF>, Vec<FMsg>), rep: &mut Rep) -> Result<(), String> {
    use adlt::plugins::export::ExportPlugin;
    use adlt::plugins::plugin::Plugin;
    let (set, msgs) = v;
    let built: Vec<DltMessage> = msgs.iter().enumerate().map(|(i, m)| m.build(i as u32)).collect();
    let sb = crate::props::c14::Sandbox::new("c12exp");
    let file = sb.path("export.dlt");
    let js: Vec<serde_json::Value> = set.iter().map(|f| serde_json::from_str(&to_json(f)).unwrap()).collect();
    let cfg = serde_json::json!({"name":"Export","exportFileName":file.to_str().unwrap(),"filters":js});
    let mut p = ExportPlugin::from_json(cfg.as_object().unwrap()).map_err(|e| format!("export plugin config refused: {}", e))?;
    for m in built.iter() {
        let mut m2 = m.clone();
        // (whether the plugin also forwards what it exports is not C12's matter: C19 allows it to drop)
        if p.process_msg(&mut m2) {
            ensure!(m2 == *m, "export plugin altered message {}", m.index);
        }
    }
    p.sync_all();
    drop(p);
    let exp: Vec<&DltMessage> = msgs.iter().zip(built.iter()).filter(|(fm, _)| keep(set, fm, true)).map(|(_, m)| m).collect();
    let got: Vec<DltMessage> = match std::fs::read(&file) {
        Ok(d) => adlt::utils::DltMessageIterator::new(0, std::io::Cursor::new(d)).collect(),
        Err(_) => vec![],
    };
    // leading info message(s) written by the plugin itself
    let got: Vec<&DltMessage> = got.iter().skip_while(|m| m.apid().map_or(false, |a| a.as_buf() == b"VsDl")).collect();
    ensure_eq!(got.len(), exp.len(), "number of exported messages (filters {})", to_json_set(set));
    for (g, e) in got.iter().zip(exp.iter()) {
        crate::props::c02::same_content(g, e).map_err(|x| format!("exported message differs from kept message {}: {}", e.index, x))?;
    }
    rep.label_if(!exp.is_empty() && exp.len() < built.len(), "proper_subset_exported");
    rep.label_if(set.iter().any(|f| f.enabled && f.kind == 3), "event_filter");
    rep.nontrivial = !exp.is_empty() && exp.len() < built.len();
    Ok(())
}
fn to_json_set(set: &[AF]) -> String {
    set.iter().map(to_json).collect::<Vec<_>>().join(",")
}

pub fn def(tier: Tier) -> PropertyDef {
    // simpler filters so that overlaps are frequent
    let simple = (0u8..4, prop::bool::weighted(0.85), prop::bool::weighted(0.15), prop::option::weighted(0.5, id_crit()), prop::option::weighted(0.4, id_crit()), prop::option::weighted(0.2, 0u8..7)).prop_map(|(kind, enabled, negated, ecu, apid, level_min)| AF {
        kind,
        enabled,
        negated,
        ecu,
        apid,
        ctid: None,
        mtype: None,
        level_min,
        level_max: None,
        payload: None,
        ignore_case: false,
        lifecycles: None,
        explicit_regex_flags: true,
    });
    let simple = simple.boxed();
    let set = prop::collection::vec(prop_oneof![3 => simple.clone(), 1 => af().boxed()], 0..7);
    PropertyDef {
        id: "C12",
        rule: "0..6 M-FILTER filters of all four kinds (enabled/disabled, negated, overlapping) x streams of 0..40 messages; reference keep(set,msg) from the statement; (a) filter_as_streams: forwarded = kept, unchanged, in order, passed+filtered = received; (b) StreamContext::from(json)+match_filters = keep incl. the event rule. Non-trivial: a message matched by an enabled positive and an enabled negative filter, or >= 2 enabled event filters.",
        assumptions: vec!["match_filters is tested through StreamContext::from which drops disabled filters (as remote/search/export construct the container)"],
        subs: vec![
            sub("export_plugin", tier.pick(8_000, 200_000), (prop::collection::vec(simple.clone(), 0..5), prop::collection::vec(fmsg(), 0..30)), export_plugin).rates(&[("proper_subset_exported", 0.2), ("event_filter", 0.1)]).boxed(),
            sub("filter_sets", tier.pick(300_000, 4_000_000), (set, prop::collection::vec(fmsg(), 0..40)), check)
            .rates(&[("msg_matched_by_pos_and_neg", 0.05), ("only_negative", 0.03), ("ge2_event_filters", 0.05), ("disabled_filter", 0.1), ("marker_filter", 0.2)])
            .boxed(),
        ],
        workers: 16,
    }
}
