//! C11 A filter matches exactly the conjunction of its criteria, via every front-end
use crate::engine::*;
use crate::model::filter::*;
use crate::{ensure, ensure_eq};
use adlt::dlt::DltMessage;
use adlt::filter::functions::{filters_from_convert_format, filters_from_dlf};
use adlt::filter::Filter;
use proptest::prelude::*;

fn self_check(f: &AF) -> Result<(), String> {
    // the hand written id regex evaluator has to agree with the regex crate on the universe
    for c in [&f.ecu, &f.apid, &f.ctid].into_iter().flatten() {
        if let IdCrit::Re(r) = c {
            let re = regex::bytes::Regex::new(&r.pattern()).map_err(|e| format!("harness: generated pattern invalid {}", e))?;
            for id in ID_UNIVERSE.iter() {
                ensure_eq!(re.is_match(&id[..]), r.eval(id), "harness self-check: pattern {:?} on {:?}", r.pattern(), id);
            }
        }
    }
    Ok(())
}

fn compare(filter: &Filter, f: &AF, msgs: &[FMsg], built: &[DltMessage], rep: &mut Rep, what: &str) -> Result<(), String> {
    for (fm, m) in msgs.iter().zip(built.iter()) {
        let d = reference_matches(f, fm);
        if d.criteria >= 2 && d.satisfied > 0 && d.satisfied < d.criteria {
            rep.nontrivial = true;
        }
        rep.label_if(d.matches, "some_match");
        rep.label_if(fm.ext.is_none() && (f.apid.is_some() || f.ctid.is_some() || f.mtype.is_some() || f.level_min.is_some() || f.level_max.is_some()), "ext_criterion_on_msg_without_ext");
        let got = filter.matches(m);
        ensure!(got == d.matches, "{}: filter {} decides {} but the criteria say {} for message {:?} (text {:?})", what, to_json(f), got, d.matches, fm, fm.text());
    }
    Ok(())
}

fn roundtrip(filter: &Filter, built: &[DltMessage], what: &str) -> Result<(), String> {
    let j = filter.to_json();
    let f2 = Filter::from_json(&j).map_err(|e| format!("{}: to_json output {} does not load: {}", what, j, e))?;
    ensure!(f2.kind == filter.kind && f2.enabled == filter.enabled, "{}: kind/enabled flag lost in the JSON round trip {}", what, j);
    for m in built {
        ensure!(filter.matches(m) == f2.matches(m), "{}: filter serialised to {} and loaded again decides differently for message idx {} ({} vs {})", what, j, m.index, filter.matches(m), f2.matches(m));
    }
    // and once more (normal form)
    let j2 = f2.to_json();
    let f3 = Filter::from_json(&j2).map_err(|e| format!("{}: second to_json output does not load: {}", what, e))?;
    for m in built {
        ensure!(f3.matches(m) == f2.matches(m), "{}: second JSON round trip decides differently", what);
    }
    Ok(())
}

fn labels(f: &AF, rep: &mut Rep) {
    rep.label_if(f.negated, "negated");
    rep.label_if(!f.enabled, "disabled");
    rep.label_if([&f.ecu, &f.apid, &f.ctid].into_iter().flatten().any(|c| matches!(c, IdCrit::Re(_))), "id_regex");
    rep.label_if(f.mtype.is_some(), "type_criterion");
    rep.label_if(f.level_min.is_some() || f.level_max.is_some(), "level_criterion");
    rep.label_if(f.payload.is_some(), "payload_criterion");
    rep.label_if(f.ignore_case, "ignore_case");
    rep.label_if(f.lifecycles.is_some(), "lifecycle_criterion");
}

fn json_frontend(v: &(AF, Vec<FMsg>), rep: &mut Rep) -> Result<(), String> {
    let (f, msgs) = v;
    self_check(f)?;
    labels(f, rep);
    let built: Vec<DltMessage> = msgs.iter().enumerate().map(|(i, m)| m.build(i as u32)).collect();
    let j = to_json(f);
    let filter = Filter::from_json(&j).map_err(|e| format!("from_json refused {}: {}", j, e))?;
    ensure_eq!(filter.kind as u8, f.kind, "filter kind from JSON");
    compare(&filter, f, msgs, &built, rep, "JSON")?;
    roundtrip(&filter, &built, "JSON")
}

fn dlf_normalise(f: &AF) -> AF {
    let mut f = f.clone();
    f.negated = false;
    f.lifecycles = None;
    if matches!(f.ecu, Some(IdCrit::Re(_))) {
        f.ecu = None;
    }
    if f.mtype.is_some() {
        f.mtype = Some(MType::Mstp(3));
    }
    if f.payload.is_none() {
        f.ignore_case = false;
    }
    f
}

fn dlf_frontend(v: &(Vec<AF>, Vec<FMsg>), rep: &mut Rep) -> Result<(), String> {
    let (fs, msgs) = v;
    let fs: Vec<AF> = fs.iter().map(dlf_normalise).collect();
    let built: Vec<DltMessage> = msgs.iter().enumerate().map(|(i, m)| m.build(i as u32)).collect();
    let xml = to_dlf(&fs);
    let filters = filters_from_dlf(xml.as_bytes()).map_err(|e| format!("filters_from_dlf failed: {:?} on {}", e, xml))?;
    ensure_eq!(filters.len(), fs.len(), "number of filters loaded from the DLF file");
    for (filter, f) in filters.iter().zip(fs.iter()) {
        self_check(f)?;
        labels(f, rep);
        ensure!(dlf_expressible(f), "harness: not expressible");
        ensure_eq!(filter.kind as u8, f.kind, "filter kind from DLF");
        compare(filter, f, msgs, &built, rep, "DLF")?;
        roundtrip(filter, &built, "DLF")?;
    }
    Ok(())
}

fn convert_frontend(v: &(Vec<(String, String)>, Vec<FMsg>), rep: &mut Rep) -> Result<(), String> {
    let (pairs, msgs) = v;
    let built: Vec<DltMessage> = msgs.iter().enumerate().map(|(i, m)| m.build(i as u32)).collect();
    let fs: Vec<AF> = pairs
        .iter()
        // ("----" in the list stands for "any": an id given as "-" here is left out of the abstract filter)
        .map(|(a, c)| AF { kind: 0, enabled: true, negated: false, ecu: None, apid: if a == "-" { None } else { Some(IdCrit::Lit(a.clone())) }, ctid: if c == "-" { None } else { Some(IdCrit::Lit(c.clone())) }, mtype: None, level_min: None, level_max: None, payload: None, ignore_case: false, lifecycles: None, explicit_regex_flags: false })
        .collect();
    let text: String = fs.iter().map(to_convert_format).collect();
    let filters = filters_from_convert_format(text.as_bytes()).map_err(|e| e.to_string())?;
    ensure_eq!(filters.len(), fs.len(), "number of filters loaded from dlt-convert format {:?}", text);
    for (filter, f) in filters.iter().zip(fs.iter()) {
        rep.label_if(f.apid.is_none() || f.ctid.is_none(), "wildcard_id");
        if f.apid.is_some() && f.ctid.is_some() {
            ensure!(convert_expressible(f), "harness: not expressible");
        }
        compare(filter, f, msgs, &built, rep, "dlt-convert format")?;
        roundtrip(filter, &built, "dlt-convert format")?;
    }
    Ok(())
}

/// ECU:APID:CTID expressions of `adlt convert --eac=` (front-end that lives in the binary): one message per id combination
fn eac_frontend(v: &Vec<AF>, rep: &mut Rep) -> Result<(), String> {
    use crate::model::trace::*;
    use crate::props::c14::{run_convert, Sandbox};
    use adlt::dlt::*;
    let exprs: Vec<&AF> = v.iter().filter(|f| eac_expressible(f)).collect();
    if exprs.is_empty() {
        rep.label("nothing_expressible");
        return Ok(());
    }
    // universe: 3 ECUs x 4 APIDs x 4 CTIDs + messages without extended header
    let mut msgs: Vec<DltMessage> = vec![];
    for e in 0..3u8 {
        for a in 0..4usize {
            for c in 0..4usize {
                msgs.push(DltMessage {
                    index: msgs.len() as u32,
                    reception_time_us: BASE + msgs.len() as u64 * 1000,
                    ecu: ecu_name(e),
                    timestamp_dms: msgs.len() as u32 * 10,
                    standard_header: DltStandardHeader { htyp: 0x31, mcnt: msgs.len() as u8, len: 0 },
                    extended_header: Some(DltExtendedHeader { verb_mstp_mtin: 0x41, noar: 1, apid: DltChar4::from_buf(APIDS[a]), ctid: DltChar4::from_buf(CTIDS[c]) }),
                    payload: string_payload("x"),
                    payload_text: None,
                    lifecycle: 0,
                });
            }
        }
        let mut m = msgs.last().unwrap().clone();
        m.index = msgs.len() as u32;
        m.reception_time_us += 1000;
        m.timestamp_dms += 10;
        m.extended_header = None;
        m.standard_header.htyp = 0x30;
        msgs.push(m);
    }
    let sb = Sandbox::new("c11eac");
    let mut bytes = vec![];
    for m in &msgs {
        m.to_write(&mut bytes).map_err(|e| e.to_string())?;
    }
    std::fs::write(sb.path("u.dlt"), &bytes).map_err(|e| e.to_string())?;
    let arg = format!("--eac={}", exprs.iter().map(|f| to_eac(f)).collect::<Vec<_>>().join(","));
    let (stdout, _) = run_convert(&[arg.clone(), "-s".into(), sb.path("u.dlt").to_string_lossy().into_owned()])?;
    let got: Vec<u32> = stdout.lines().filter_map(|l| l.split(' ').next().and_then(|x| x.parse().ok())).collect();
    let exp: Vec<u32> = msgs.iter().filter(|m| exprs.iter().any(|f| reference_matches_view(f, &MView::of(m)).matches)).map(|m| m.index).collect();
    ensure!(got == exp, "adlt convert {} selects messages {:?}, the expressions select {:?}", arg, got, exp);
    rep.label_if(exprs.iter().any(|f| [&f.ecu, &f.apid, &f.ctid].into_iter().flatten().any(|c| matches!(c, IdCrit::Re(_)))), "eac_regex");
    rep.label_if(exprs.len() >= 2, "ge2_expressions");
    rep.nontrivial = !exp.is_empty() && exp.len() < msgs.len();
    Ok(())
}

pub fn def(tier: Tier) -> PropertyDef {
    let msgs = || prop::collection::vec(fmsg(), 1..10);
    let ids = || prop::sample::select(vec!["ECU1", "ECU2", "AB", "ABC", "A", "SYS", "ABCD", "ABCDE", "X", "-", "-"]).prop_map(|s| s.to_string());
    PropertyDef {
        id: "C11",
        rule: "M-FILTER: abstract filters (kind, enabled, negated, ecu/apid/ctid literal (short, full, over-long) or regex from a small grammar (anchored/unanchored atom sequences, '.', classes, alternation), type by mstp or verb_mstp_mtin, level min/max, payload literal/regex with ignore-case, lifecycles) x messages over a small id universe (with/without extended header, targeted+random type bytes, lifecycle 0..5, payload words in mixed case preset or decoded from a verbose string); reference matches() written from the statement; front-ends JSON, DLF XML, dlt-convert list (ECU:APID:CTID expressions are driven through the binary in C14); JSON round trip of every loaded filter. Non-trivial: >=2 criteria of which some but not all hold.",
        assumptions: vec!["regex engines (regex, fancy-regex) are trusted; id patterns are additionally evaluated by a hand-written matcher that must agree", "each front-end is exercised only on the sub-language it can express (DLF: no negation/lifecycles/ecu regex, type only 'control'; dlt-convert: literal apid+ctid)"],
        subs: vec![
            sub("json_frontend", tier.pick(400_000, 6_000_000), (af(), msgs()), json_frontend)
                .rates(&[("negated", 0.1), ("id_regex", 0.2), ("type_criterion", 0.2), ("level_criterion", 0.2), ("payload_criterion", 0.2), ("ignore_case", 0.05), ("some_match", 0.2), ("ext_criterion_on_msg_without_ext", 0.1)])
                .boxed(),
            sub("dlf_frontend", tier.pick(150_000, 2_000_000), (prop::collection::vec(af(), 1..4), msgs()), dlf_frontend).rates(&[("payload_criterion", 0.2), ("some_match", 0.2)]).boxed(),
            sub("eac_frontend_binary", tier.pick(400, 10_000), prop::collection::vec(crate::props::c14::eac_af(), 1..4), eac_frontend).rates(&[("eac_regex", 0.1), ("ge2_expressions", 0.2)]).shrink_iters(60).slow().boxed(),
            sub("convert_format", tier.pick(100_000, 1_000_000), (prop::collection::vec((ids(), ids()), 0..5), msgs()), convert_frontend).rates(&[("some_match", 0.05)]).boxed(),
        ],
        workers: 16,
    }
}
