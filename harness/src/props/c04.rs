//! C04 Parsing depends only on the bytes, not on read chunking or position
use crate::engine::*;
use crate::model::wire::*;
use crate::{ensure, ensure_eq};
use adlt::dlt::{DltMessage, DLT_MAX_STORAGE_MSG_SIZE};
use adlt::utils::{DltMessageIterator, LowMarkBufReader};
use proptest::prelude::*;
use serde::{Deserialize, Serialize};
use std::io::{BufRead, Read, Seek, SeekFrom};

/// source that returns short reads according to a schedule (0 only at EOF or for an empty buffer)
pub struct SchedSource<'a> {
    pub data: &'a [u8],
    pub pos: usize,
    pub first: Option<usize>,
    pub sizes: &'a [usize],
    pub i: usize,
    pub short_reads: usize,
    pub reads: usize,
}
impl<'a> SchedSource<'a> {
    pub fn new(data: &'a [u8], first: Option<usize>, sizes: &'a [usize]) -> Self {
        SchedSource { data, pos: 0, first, sizes, i: 0, short_reads: 0, reads: 0 }
    }
}
impl Read for SchedSource<'_> {
    fn read(&mut self, buf: &mut [u8]) -> std::io::Result<usize> {
        let rem = self.data.len() - self.pos;
        if buf.is_empty() || rem == 0 {
            return Ok(0);
        }
        let want = match self.first.take() {
            Some(f) => f,
            None => {
                let s = if self.sizes.is_empty() { usize::MAX } else { self.sizes[self.i % self.sizes.len()] };
                self.i += 1;
                s
            }
        };
        let n = std::cmp::max(1, std::cmp::min(want, std::cmp::min(buf.len(), rem)));
        self.reads += 1;
        if n < std::cmp::min(buf.len(), rem) {
            self.short_reads += 1;
        }
        buf[..n].copy_from_slice(&self.data[self.pos..self.pos + n]);
        self.pos += n;
        Ok(n)
    }
}

#[derive(Clone, Debug, Serialize, Deserialize)]
pub struct Sched {
    pub first_over_low_mark: Option<i32>, // first read = low_mark + d
    pub sizes: Vec<usize>,
}
pub fn sched() -> impl Strategy<Value = Sched> {
    (
        prop_oneof![3 => Just(None), 2 => (-3i32..8).prop_map(Some)],
        prop_oneof![
            2 => Just(vec![1usize]),
            3 => prop::collection::vec(1usize..64, 1..8),
            3 => prop::collection::vec(prop_oneof![1usize..5000, 1usize..100_000], 1..8),
            1 => Just(vec![]),
            2 => prop::collection::vec(prop_oneof![Just(4096usize), Just(4095usize), Just(65536usize), Just(65551usize), 1usize..10], 1..6),
        ],
    )
        .prop_map(|(first_over_low_mark, sizes)| Sched { first_over_low_mark, sizes })
}

fn datagen(len: usize, salt: u32) -> Vec<u8> {
    (0..len).map(|i| (((i as u32) ^ salt).wrapping_mul(2654435761) >> 24) as u8).collect()
}

// ------------------------------------------------------------------ A: reader model
#[derive(Clone, Debug, Serialize, Deserialize)]
pub enum Op {
    Fill,
    Consume(u16),
    Read(u32),
    SeekFwd(u16),    // Start(target within the buffered window)
    SeekCurFwd(u16), // Current(+d within window)
    SeekBack(u32),   // Start(pos - d): may be refused; if accepted bytes must be right
    SeekOutside(u32),
    SeekEnd,
    /// Start(target within what is buffered right now) without filling first
    SeekNoFill(u16),
    /// Current(-d): may be refused; if accepted the bytes must be right
    SeekCurBack(u32),
}
fn op() -> impl Strategy<Value = Op> {
    prop_oneof![
        3 => Just(Op::Fill),
        4 => any::<u16>().prop_map(Op::Consume),
        4 => prop_oneof![0u32..10, 0u32..5000, 0u32..200_000].prop_map(Op::Read),
        2 => any::<u16>().prop_map(Op::SeekFwd),
        1 => any::<u16>().prop_map(Op::SeekCurFwd),
        2 => prop_oneof![0u32..10, 0u32..5000, 0u32..100_000].prop_map(Op::SeekBack),
        1 => (1u32..100_000).prop_map(Op::SeekOutside),
        1 => Just(Op::SeekEnd),
        2 => any::<u16>().prop_map(Op::SeekNoFill),
        1 => prop_oneof![0u32..10, 0u32..5000].prop_map(Op::SeekCurBack),
    ]
}
type ReaderCase = (u32, u32, u32, u32, Sched, Vec<Op>);

fn reader_model(v: &ReaderCase, rep: &mut Rep) -> Result<(), String> {
    let (low_mark, extra_cap, len, salt, sched, ops) = v;
    let low_mark = std::cmp::max(1, *low_mark as usize);
    let cap = low_mark + 4096 + *extra_cap as usize;
    let data = datagen(*len as usize, *salt);
    let first = sched.first_over_low_mark.map(|d| (low_mark as i64 + d as i64).max(1) as usize);
    let src = SchedSource::new(&data, first, &sched.sizes);
    let mut r = LowMarkBufReader::new(src, cap, low_mark);
    let mut pos = 0usize; // model position
    let mut backward_ok = 0;
    let mut no_fill_seeks = 0;
    let mut handed = 0usize;
    let check_slice = |s: &[u8], pos: usize, what: &str| -> Result<(), String> {
        ensure!(pos + s.len() <= data.len(), "{}: {} bytes at {} exceed the source ({} bytes)", what, s.len(), pos, data.len());
        if s != &data[pos..pos + s.len()] {
            let bad = s.iter().zip(&data[pos..]).position(|(a, b)| a != b).unwrap();
            return Err(format!("{}: byte at offset {} differs from the source (pos {}, len {})", what, pos + bad, pos, s.len()));
        }
        Ok(())
    };
    // whenever the reader was asked to fill: at least the low-water mark of look-ahead (or all that is left)
    let check_low_mark = |got: usize, pos: usize, what: &str| -> Result<(), String> {
        let need = std::cmp::min(low_mark, data.len() - pos);
        ensure!(got >= need, "{}: fill_buf returned {} bytes < min(low_mark {}, remaining {}) at pos {}", what, got, low_mark, data.len() - pos, pos);
        Ok(())
    };
    for (oi, op) in ops.iter().enumerate() {
        {
            // what is buffered right now is a piece of the source at the model position
            let b = r.buffer();
            check_slice(b, pos, "buffer()")?;
            ensure!(b.len() <= r.capacity(), "buffer() larger than the capacity");
        }
        match op {
            Op::Fill => {
                let s = r.fill_buf().map_err(|e| format!("fill_buf error {}", e))?;
                check_slice(s, pos, "fill_buf")?;
                let need = std::cmp::min(low_mark, data.len() - pos);
                ensure!(s.len() >= need, "op {}: fill_buf returned {} bytes < min(low_mark {}, remaining {}) at pos {}", oi, s.len(), low_mark, data.len() - pos, pos);
            }
            Op::Consume(f) => {
                let avail = r.fill_buf().map_err(|e| e.to_string())?.len();
                check_low_mark(avail, pos, "consume")?;
                let n = (*f as usize * (avail + 1)) >> 16;
                r.consume(n);
                pos += n;
                handed += n;
            }
            Op::Read(n) => {
                let mut buf = vec![0u8; *n as usize];
                let k = r.read(&mut buf).map_err(|e| format!("read error {}", e))?;
                ensure!(k <= buf.len(), "read returned more than requested");
                check_slice(&buf[..k], pos, "read")?;
                if *n > 0 && pos < data.len() {
                    ensure!(k > 0, "op {}: read({}) returned 0 at pos {} although the source has {} bytes (early end-of-data)", oi, n, pos, data.len());
                }
                pos += k;
                handed += k;
            }
            Op::SeekFwd(f) => {
                let avail = r.fill_buf().map_err(|e| e.to_string())?.len();
                check_low_mark(avail, pos, "seek fwd")?;
                let d = (*f as usize * (avail + 1)) >> 16;
                let t = pos + d;
                match r.seek(SeekFrom::Start(t as u64)) {
                    Ok(p) => {
                        ensure_eq!(p, t as u64, "seek(Start) result");
                        pos = t;
                    }
                    Err(e) => return Err(format!("op {}: seek forward within the buffered window refused: {}", oi, e)),
                }
            }
            Op::SeekCurFwd(f) => {
                let avail = r.fill_buf().map_err(|e| e.to_string())?.len();
                check_low_mark(avail, pos, "seek cur")?;
                let d = (*f as usize * (avail + 1)) >> 16;
                match r.seek(SeekFrom::Current(d as i64)) {
                    Ok(p) => {
                        ensure_eq!(p, (pos + d) as u64, "seek(Current) result");
                        pos += d;
                    }
                    Err(e) => return Err(format!("op {}: seek(Current(+{})) within the buffered window refused: {}", oi, d, e)),
                }
            }
            Op::SeekBack(d) => {
                let t = pos.saturating_sub(*d as usize);
                if let Ok(p) = r.seek(SeekFrom::Start(t as u64)) {
                    ensure_eq!(p, t as u64, "seek(Start) backwards result");
                    if t < pos {
                        backward_ok += 1;
                    }
                    pos = t;
                } // refused: position unchanged
            }
            Op::SeekOutside(d) => {
                // outside of the statement (only seeks within the buffer are promised): refused, or done correctly
                let avail = r.fill_buf().map_err(|e| e.to_string())?.len();
                check_low_mark(avail, pos, "seek outside")?;
                let t = pos + avail + *d as usize;
                if let Ok(p) = r.seek(SeekFrom::Start(t as u64)) {
                    ensure_eq!(p, t as u64, "seek(Start) beyond the window: result");
                    if t > data.len() {
                        rep.label("seek_beyond_source_accepted");
                        return Ok(());
                    }
                    pos = t;
                }
            }
            Op::SeekEnd => {
                if let Ok(p) = r.seek(SeekFrom::End(0)) {
                    ensure_eq!(p, data.len() as u64, "seek(End(0)) result");
                    pos = data.len();
                }
            }
            Op::SeekNoFill(f) => {
                let avail = r.buffer().len();
                let d = (*f as usize * (avail + 1)) >> 16;
                let t = pos + d;
                match r.seek(SeekFrom::Start(t as u64)) {
                    Ok(p) => {
                        ensure_eq!(p, t as u64, "seek(Start) result");
                        pos = t;
                    }
                    Err(e) => return Err(format!("op {}: seek to +{} within the {} buffered bytes (no fill before) refused: {}", oi, d, avail, e)),
                }
                no_fill_seeks += 1;
            }
            Op::SeekCurBack(d) => {
                let t = pos.saturating_sub(*d as usize);
                if let Ok(p) = r.seek(SeekFrom::Current(-((pos - t) as i64))) {
                    ensure_eq!(p, t as u64, "seek(Current(-d)) result");
                    if t < pos {
                        backward_ok += 1;
                    }
                    pos = t;
                }
            }
        }
    }
    // drain: everything that is left comes out once and in order
    loop {
        let s = r.fill_buf().map_err(|e| e.to_string())?;
        if s.is_empty() {
            break;
        }
        check_slice(s, pos, "drain")?;
        let n = s.len();
        check_low_mark(n, pos, "drain")?;
        r.consume(n);
        pos += n;
        handed += n;
    }
    ensure_eq!(pos, data.len(), "end-of-data signalled at {} of {} bytes", pos, data.len());
    let _ = handed;
    rep.label_if(backward_ok > 0, "backward_seek_accepted");
    rep.label_if(no_fill_seeks > 0, "seek_without_fill");
    rep.label_if(data.len() > cap, "source_larger_than_buffer");
    rep.label_if(cap < 2 * low_mark && low_mark > 4096, "tight_capacity_big_low_mark");
    rep.nontrivial = data.len() > cap && ops.len() >= 3;
    Ok(())
}

// ------------------------------------------------------------------ B: iterator differential
type IterCase = (Stream, Vec<u16>, u32, Sched, u32);

fn parse_all<R: BufRead>(start: u32, r: R) -> (Vec<DltMessage>, usize, usize, bool, bool) {
    parse_all_log(start, r, false)
}
fn parse_all_log<R: BufRead>(start: u32, r: R, with_logger: bool) -> (Vec<DltMessage>, usize, usize, bool, bool) {
    let logger = slog::Logger::root(slog::Discard, slog::o!());
    let mut it = DltMessageIterator::new(start, r);
    if with_logger {
        it.log = Some(&logger); // as the production callers do (extra bookkeeping of skipped bytes)
    }
    let msgs: Vec<DltMessage> = it.by_ref().collect();
    (msgs, it.bytes_processed, it.bytes_skipped, it.detected_storage_header, it.detected_serial_header)
}

fn f04_class(bytes: &[u8]) -> bool {
    // a storage message candidate of total size >= max-3 that contains an embedded storage marker
    let n = bytes.len();
    let mut p = 0;
    while p + 20 <= n {
        if bytes[p..p + 4] == STORAGE_MARKER {
            let len = u16::from_be_bytes([bytes[p + 18], bytes[p + 19]]) as usize + 16;
            if len >= DLT_MAX_STORAGE_MSG_SIZE - 3 && p + len <= n {
                let body = &bytes[p + 5..p + len];
                if body.windows(4).any(|w| w == STORAGE_MARKER) {
                    return true;
                }
            }
        }
        p += 1;
    }
    false
}

pub fn iter_diff(v: &IterCase, rep: &mut Rep, strict: bool) -> Result<(), String> {
    let (stream, inject, extra_cap, sched, start) = v;
    let enc = stream.encode_raw();
    let mut bytes = enc.bytes;
    let mut foreign_marker = false;
    for sel in inject {
        if bytes.len() >= 4 {
            let p = (*sel as usize * (bytes.len() - 3)) >> 16;
            // mostly the stream's own marker, sometimes the one of the other framing
            let m = if stream.serial != (*sel % 4 == 3) { SERIAL_MARKER } else { STORAGE_MARKER };
            foreign_marker |= *sel % 4 == 3;
            bytes[p..p + 4].copy_from_slice(&m);
        }
    }
    // a stream that ends in the middle of a message (not enough data at the end vs in the middle of the buffer)
    let truncated = *start % 3 == 2 && !bytes.is_empty();
    if truncated {
        let cut = (*start as usize / 3) % (std::cmp::min(bytes.len(), 70_000) + 1);
        bytes.truncate(bytes.len() - cut);
    }
    let with_logger = *start % 2 == 1;
    if !strict && !stream.serial && f04_class(&bytes) {
        rep.known = Some("F04");
        return Ok(());
    }
    let low_mark = DLT_MAX_STORAGE_MSG_SIZE;
    let cap = low_mark + 4096 + *extra_cap as usize;
    let reference = parse_all_log(*start, std::io::Cursor::new(&bytes[..]), with_logger);
    let first = sched.first_over_low_mark.map(|d| (low_mark as i64 + d as i64) as usize);
    let src = SchedSource::new(&bytes, first, &sched.sizes);
    let mut rd = LowMarkBufReader::new(src, cap, low_mark);
    let got = {
        parse_all_log(*start, &mut rd, with_logger)
    };
    rep.label_if(foreign_marker, "foreign_framing_marker");
    rep.label_if(truncated, "truncated_stream");
    rep.label_if(with_logger, "with_logger");
    rep.label_if(!inject.is_empty(), "embedded_markers");
    rep.label_if(stream.elems.iter().any(|e| matches!(e, Elem::G(g) if g.len >= 65_000)), "garbage_run_ge_64k");
    rep.label_if(bytes.len() > cap, "stream_larger_than_buffer");
    rep.label_if(enc.msgs.iter().any(|m| m.1.payload.len >= 60000), "msg_ge_60000");
    rep.label_if(stream.serial, "serial");
    rep.nontrivial = (bytes.len() > low_mark && !sched.sizes.is_empty()) || enc.msgs.iter().any(|m| m.1.payload.len >= 60000);
    ensure_eq!(got.0.len(), reference.0.len(), "number of messages (chunked reader vs whole buffer)");
    for (i, (a, b)) in got.0.iter().zip(reference.0.iter()).enumerate() {
        ensure!(a == b, "message #{} differs between chunked reader and whole buffer: idx {} len {} vs idx {} len {}", i, a.index, a.payload.len(), b.index, b.payload.len());
    }
    ensure_eq!((got.1, got.2, got.3, got.4), (reference.1, reference.2, reference.3, reference.4), "counters (processed, skipped, storage, serial)");
    Ok(())
}

/// position independence on marker clean streams: the suffix starting at message k parses to the tail of the full parse
fn suffix_check(v: &(Stream, u16, u32), rep: &mut Rep) -> Result<(), String> {
    let (stream, ksel, start) = v;
    let enc = match stream.encode_clean() {
        Some(e) => e,
        None => return Ok(()),
    };
    if enc.msgs.is_empty() {
        return Ok(());
    }
    let k = (*ksel as usize * enc.msgs.len()) >> 16;
    // the suffix starts at message k or (odd selector) right behind message k-1, i.e. with the garbage before message k:
    // the full parse meets that garbage with the framing already detected, the fresh parse without
    let at_garbage = *ksel % 2 == 1 && k >= 1;
    let off = if at_garbage { enc.msgs[k - 1].0 + enc.msgs[k - 1].1.encoded_len(stream.serial) } else { enc.msgs[k].0 };
    rep.label_if(at_garbage && off < enc.msgs[k].0, "suffix_starts_with_garbage");
    if stream.serial && enc.bytes.len() - off < 20 && k > 0 {
        // a serial suffix shorter than 20 bytes is the (fixed) F01 situation; fine
    }
    let full = parse_all(*start, std::io::Cursor::new(&enc.bytes[..]));
    let tail = parse_all(start.wrapping_add(k as u32), std::io::Cursor::new(&enc.bytes[off..]));
    rep.nontrivial = k >= 1 && enc.msgs.len() >= 3;
    rep.label_if(k >= 1, "proper_suffix");
    ensure_eq!(full.0.len(), enc.msgs.len(), "full parse count");
    ensure_eq!(tail.0.len(), enc.msgs.len() - k, "suffix parse count");
    for (a, b) in tail.0.iter().zip(full.0[k..].iter()) {
        ensure!(a == b, "suffix parse differs at index {}", a.index);
    }
    Ok(())
}

/// position independence on damaged streams: a suffix with embedded markers of its own framing, a message whose length
/// field points behind the end of the input, or a cut off end parses to the same messages on its own and behind 1..3
/// whole messages (the full parse meets the damage with the framing already detected, the fresh parse without)
fn dirty_suffix_check(v: &(Stream, Stream, Vec<(u16, u8)>, u32), rep: &mut Rep) -> Result<(), String> {
    let (suffix, prefix, damage, start) = v;
    let enc = match suffix.encode_clean() {
        Some(e) => e,
        None => return Ok(()),
    };
    let mut pre = prefix.clone();
    pre.serial = suffix.serial;
    pre.elems.retain(|e| matches!(e, Elem::M(_)));
    pre.elems.truncate(3);
    let penc = match pre.encode_clean() {
        Some(e) => e,
        None => return Ok(()),
    };
    if penc.msgs.is_empty() {
        rep.label("no_prefix");
        return Ok(());
    }
    let mut s = enc.bytes.clone();
    let marker = if suffix.serial { SERIAL_MARKER } else { STORAGE_MARKER };
    let len_at = if suffix.serial { 4 + 2 } else { 16 + 2 };
    for (sel, kind) in damage {
        match kind % 3 {
            0 if s.len() >= 4 => {
                let p = (*sel as usize * (s.len() - 3)) >> 16;
                s[p..p + 4].copy_from_slice(&marker);
                rep.label("embedded_marker");
            }
            1 if !enc.msgs.is_empty() => {
                let j = (*sel as usize * enc.msgs.len()) >> 16;
                let off = enc.msgs[j].0;
                if off + len_at + 2 <= s.len() {
                    // announced length: more than what is left of the input
                    let rest = s.len() - off;
                    let l = std::cmp::min(0xffff, rest + 1 + (*sel as usize % 7) * 300) as u16;
                    s[off + len_at..off + len_at + 2].copy_from_slice(&l.to_be_bytes());
                    rep.label_if(l as usize > rest, "length_beyond_the_end");
                }
            }
            2 => {
                let cut = (*sel as usize % 40).min(s.len());
                s.truncate(s.len() - cut);
                rep.label_if(cut > 0, "cut_off_end");
            }
            _ => {}
        }
    }
    let mut whole = penc.bytes.clone();
    whole.extend_from_slice(&s);
    // the last bytes of the messages in front and the first bytes of the suffix may form a marker between them: then the
    // stream is not "whole messages, then the suffix" any more (the marker belongs to neither)
    let pl = penc.bytes.len();
    if (1..=3usize).any(|j| pl >= j && whole.len() >= pl - j + 4 && (whole[pl - j..pl - j + 4] == STORAGE_MARKER || whole[pl - j..pl - j + 4] == SERIAL_MARKER)) {
        rep.label("marker_across_the_junction");
        return Ok(());
    }
    if !suffix.serial && (f04_class(&s) || f04_class(&whole)) {
        rep.known = Some("F04");
        return Ok(());
    }
    let k = penc.msgs.len();
    let alone = parse_all(start.wrapping_add(k as u32), std::io::Cursor::new(&s[..]));
    let behind = parse_all(*start, std::io::Cursor::new(&whole[..]));
    rep.nontrivial = !damage.is_empty() && !alone.0.is_empty();
    rep.label_if(alone.0.len() < enc.msgs.len(), "damage_costs_messages");
    ensure!(behind.0.len() >= k, "the {} whole messages in front are not all recognised ({})", k, behind.0.len());
    ensure_eq!(behind.0.len() - k, alone.0.len(), "messages recognised in the suffix behind {} whole messages vs on its own ({} bytes, {})", k, s.len(), if suffix.serial { "serial" } else { "storage" });
    for (a, b) in alone.0.iter().zip(behind.0[k..].iter()) {
        ensure!(a == b, "suffix parse differs at index {}", a.index);
    }
    Ok(())
}

/// streams with several near-maximum messages (so that the stream exceeds the reader's buffer)
fn huge_stream() -> impl Strategy<Value = Stream> {
    (stream(8, true, 5000), prop::collection::vec((any::<u16>(), any::<u16>()), 0..5)).prop_map(|(mut s, bumps)| {
        let idx: Vec<usize> = s.elems.iter().enumerate().filter(|(_, e)| matches!(e, Elem::M(_))).map(|(i, _)| i).collect();
        // long runs of garbage (around and beyond the 64 KiB of look-ahead the reader keeps): resynchronisation may
        // never search only what happens to be buffered
        let gidx: Vec<usize> = s.elems.iter().enumerate().filter(|(_, e)| matches!(e, Elem::G(_))).map(|(i, _)| i).collect();
        for (a, b) in bumps.iter().take(2) {
            if !gidx.is_empty() && a % 3 == 0 {
                let i = gidx[(*b as usize * gidx.len()) >> 16];
                if let Elem::G(g) = &mut s.elems[i] {
                    g.len = match a % 5 {
                        0 => 65_500 + (*b as usize % 120),
                        1 => 70_000 + (*b as usize % 50),
                        2 => 131_000 + (*b as usize % 200),
                        3 => 400_000 + (*b as usize % 100),
                        _ => 65_536 + (*b as usize % 40),
                    };
                }
            }
        }
        for (a, b) in bumps {
            if idx.is_empty() {
                break;
            }
            let i = idx[(a as usize * idx.len()) >> 16];
            if let Elem::M(m) = &mut s.elems[i] {
                let max = WMsg::max_payload(m.htyp);
                m.payload.len = if b % 3 == 0 { max - (b as usize % 9) } else { 40_000 + (b as usize % (max - 40_000)) };
            }
        }
        s
    })
}

fn many_small() -> impl Strategy<Value = Stream> {
    (any::<bool>(), prop::collection::vec(prop_oneof![1 => garbage(300).prop_map(Elem::G), 8 => wmsg(false).prop_map(Elem::M)], 300..1200))
        .prop_map(|(serial, elems)| Stream { serial, elems })
}

pub fn def(tier: Tier) -> PropertyDef {
    let low_mark = prop_oneof![3 => 1u32..64, 3 => 1u32..5000, 2 => 4097u32..70_000, 1 => Just(65551u32)];
    let extra = prop_oneof![4 => Just(0u32), 3 => 0u32..64, 2 => 0u32..9000, 1 => 0u32..200_000];
    let reader = (low_mark, extra.clone(), prop_oneof![3 => 0u32..20_000, 3 => 0u32..200_000, 1 => 0u32..600_000], any::<u32>(), sched(), prop::collection::vec(op(), 0..40));
    let start = prop_oneof![Just(0u32), 0u32..100_000];
    let inject = prop_oneof![2 => Just(vec![]), 1 => prop::collection::vec(any::<u16>(), 1..4)];
    let f04_strict = (huge_stream(), inject.clone(), extra.clone(), sched(), start.clone());
    PropertyDef {
        id: "C04",
        rule: "A: LowMarkBufReader over a scripted short-read source (schedules: all 1-byte, random small/large, boundary reads low_mark-3..+7, cache-line sized) with low_mark 1..70000, capacity = low_mark+4096+{0, small, large}, op sequences fill/consume/read/seek(Start|Current within window)/backward seek/outside seek vs. a (data, position) model: bytes handed out equal the source once and in order, fill_buf >= min(low_mark, remaining), no early EOF. B: DltMessageIterator over that reader (low mark DLT_MAX_STORAGE_MSG_SIZE as the callers) vs. over the whole buffer for generated streams incl. 65 KB messages and injected markers: identical messages and counters; suffix at message k parses to the tail. Non-trivial: source larger than the buffer (refill/compaction happened) or a message >= 60000 bytes.",
        assumptions: vec![
            "backward seeks may be refused; if accepted the bytes must be right",
            "open finding F04 (near-max message with embedded marker) is excluded from sub check B by input class and counted",
        ],
        subs: vec![
            sub("reader_model", tier.pick(100_000, 2_000_000), reader, reader_model)
                .rates(&[("source_larger_than_buffer", 0.2), ("tight_capacity_big_low_mark", 0.05), ("seek_without_fill", 0.3)])
                .boxed(),
            sub("iter_diff_huge", tier.pick(15_000, 300_000), (huge_stream(), inject.clone(), extra.clone(), sched(), start.clone()), |v, r| iter_diff(v, r, false))
                .rates(&[("stream_larger_than_buffer", 0.2), ("embedded_markers", 0.2), ("foreign_framing_marker", 0.05), ("truncated_stream", 0.1), ("with_logger", 0.2), ("garbage_run_ge_64k", 0.1)])
                .boxed(),
            sub("iter_diff_many_small", tier.pick(4_000, 80_000), (many_small(), inject, extra, sched(), start.clone()), |v, r| iter_diff(v, r, false))
                .rates(&[("stream_larger_than_buffer", 0.3)])
                .shrink_iters(300)
                .boxed(),
            sub("suffix_position", tier.pick(60_000, 1_000_000), (stream(12, false, 300), any::<u16>(), start), suffix_check).rates(&[("proper_suffix", 0.3), ("suffix_starts_with_garbage", 0.1)]).boxed(),
            sub("suffix_position_damaged", tier.pick(150_000, 2_000_000), (stream(8, false, 300), stream(4, false, 0), prop::collection::vec((any::<u16>(), 0u8..3), 0..4), prop_oneof![Just(0u32), any::<u32>()]), dirty_suffix_check).rates(&[("embedded_marker", 0.2), ("length_beyond_the_end", 0.15), ("cut_off_end", 0.2), ("damage_costs_messages", 0.2)]).boxed(),
            crate::fuzzing::fuzz_sub("framing", "fuzz_framing", tier.pick(10_000, 100_000)),
            // only used to replay the pinned reproducer of the open finding F04 (no exclusion)
            sub("f04_strict", std::env::var("VERIF_DEV_F04").ok().and_then(|s| s.parse().ok()).unwrap_or(0), f04_strict, |v, r| iter_diff(v, r, true)).boxed(),
        ],
        workers: 16,
    }
}
