//! C15 Remote server survives any command sequence and always answers (binary level, stateful)
use crate::engine::*;
use crate::model::remote::*;
use crate::model::trace::*;
use crate::props::c14::Sandbox;
use crate::{ensure, ensure_eq};
use adlt::dlt::*;
use proptest::prelude::*;
use serde::{Deserialize, Serialize};
use std::io::Write;
use std::path::PathBuf;
use std::time::Duration;

pub fn write_simple_file(path: &std::path::Path, n: u32) {
    let mut f = std::io::BufWriter::new(std::fs::File::create(path).unwrap());
    for i in 0..n {
        let m = DltMessage {
            index: i,
            reception_time_us: BASE + i as u64 * 1000,
            ecu: DltChar4::from_buf(b"ECU1"),
            timestamp_dms: i * 10,
            standard_header: DltStandardHeader { htyp: 0x31, mcnt: (i % 256) as u8, len: 0 },
            extended_header: Some(DltExtendedHeader { verb_mstp_mtin: 0x41, noar: 0, apid: DltChar4::from_buf(if i % 3 == 0 { b"APA\0" } else { b"APB\0" }), ctid: DltChar4::from_buf(b"CTX\0") }),
            payload: vec![],
            payload_text: None,
            lifecycle: 0,
        };
        m.to_write(&mut f).unwrap();
    }
    f.flush().unwrap();
}

/// per worker files (created once)
pub fn files_dir(xl: bool) -> PathBuf {
    static DIR: std::sync::OnceLock<PathBuf> = std::sync::OnceLock::new();
    static XL: std::sync::OnceLock<()> = std::sync::OnceLock::new();
    let d = DIR.get_or_init(|| {
        let base = std::env::var("VERIF_RUN_DIR").map(PathBuf::from).unwrap_or_else(|_| work_dir());
        let d = base.join(format!("remote_files_{}", std::process::id()));
        std::fs::create_dir_all(&d).unwrap();
        write_simple_file(&d.join("s.dlt"), 50);
        write_simple_file(&d.join("m.dlt"), 5000);
        write_simple_file(&d.join("l.dlt"), 60_000);
        std::fs::write(d.join("empty.dlt"), b"").unwrap();
        std::fs::write(d.join("junk.dlt"), vec![0x55u8; 3000]).unwrap();
        std::fs::write(d.join("junk.zip"), vec![0x55u8; 3000]).unwrap();
        std::fs::create_dir_all(d.join("muniic_bad")).unwrap();
        std::fs::write(d.join("muniic_bad/bad.json"), [0xffu8, 0xfe, 0x00, 0x7b]).unwrap();
        std::fs::create_dir_all(d.join("dir.zip")).unwrap();
        {
            // a valid archive with the 5000 message file
            let mut w = zip::ZipWriter::new(std::fs::File::create(d.join("z.zip")).unwrap());
            let opt = zip::write::SimpleFileOptions::default().compression_method(zip::CompressionMethod::Stored);
            w.start_file("dir/m.dlt", opt).unwrap();
            w.write_all(&std::fs::read(d.join("m.dlt")).unwrap()).unwrap();
            w.finish().unwrap();
        }
        d
    });
    if xl {
        XL.get_or_init(|| write_simple_file(&d.join("xl.dlt"), 2_200_000));
    }
    d.clone()
}

#[derive(Clone, Debug, Serialize, Deserialize)]
pub enum Cmd {
    Open(u8),
    Close,
    Pause,
    Resume,
    Stream(u8),
    Query(u8),
    Stop(u8),
    ChangeWin(u8, u8),
    BinSearch(u8, u8),
    Search(u8, u8),
    PluginCmd(u8),
    Fs(u8),
    Garbage(u8),
    Wait(u8),
    /// pseudo command: the server is started with small channel capacities (hook ADLT_VERIF_CHANNEL_CAP)
    Cap(u8),
    /// the next n commands that do not change the session state are sent without waiting for the replies in between
    Burst(u8),
}

fn cmd(xl: bool) -> impl Strategy<Value = Cmd> {
    let open_kinds: Vec<u8> = if xl { (0u8..25).collect() } else { (0u8..25).filter(|k| *k != 10).collect() };
    prop_oneof![
        4 => prop::sample::select(open_kinds).prop_map(Cmd::Open),
        2 => Just(Cmd::Close),
        1 => Just(Cmd::Pause),
        1 => Just(Cmd::Resume),
        4 => (0u8..10).prop_map(Cmd::Stream),
        2 => (0u8..10).prop_map(Cmd::Query),
        2 => (0u8..6).prop_map(Cmd::Stop),
        3 => (prop_oneof![4 => 0u8..3, 1 => 3u8..6], 0u8..8).prop_map(|(a, b)| Cmd::ChangeWin(a, b)),
        3 => (prop_oneof![4 => 0u8..3, 1 => 3u8..6], 0u8..11).prop_map(|(a, b)| Cmd::BinSearch(a, b)),
        3 => (prop_oneof![4 => 0u8..3, 1 => 3u8..6], 0u8..11).prop_map(|(a, b)| Cmd::Search(a, b)),
        2 => (0u8..6).prop_map(Cmd::PluginCmd),
        2 => (0u8..11).prop_map(Cmd::Fs),
        1 => (0u8..6).prop_map(Cmd::Garbage),
        1 => (0u8..4).prop_map(Cmd::Wait),
        3 => (0u8..6).prop_map(Cmd::Burst),
    ]
}

/// mostly: open something, create some streams, then arbitrary commands
fn history(xl: bool) -> impl Strategy<Value = Vec<Cmd>> {
    (
        prop::option::weighted(0.8, prop_oneof![4 => 0u8..7, 1 => Just(11u8), 2 => prop::sample::select(if xl { (0u8..25).collect::<Vec<u8>>() } else { (0u8..25).filter(|k| *k != 10).collect() })]),
        prop::collection::vec(prop_oneof![3 => (0u8..5).prop_map(Cmd::Stream), 1 => (0u8..5).prop_map(Cmd::Query), 1 => Just(Cmd::Resume)], 0..4),
        prop::collection::vec(cmd(xl), 1..22),
        prop::option::weighted(0.35, 0u8..3),
    )
        .prop_map(|(o, pre, rest, cap)| {
            let mut v = vec![];
            if let Some(k) = cap {
                v.push(Cmd::Cap(k));
            }
            if let Some(k) = o {
                v.push(Cmd::Open(k));
            }
            v.extend(pre);
            v.extend(rest);
            v
        })
}

/// one_pass_streams sessions: small alphabet so that resume/pause/stream orders are covered densely
fn one_pass_history() -> impl Strategy<Value = Vec<Cmd>> {
    prop::collection::vec(
        prop_oneof![
            3 => Just(Cmd::Resume),
            2 => Just(Cmd::Pause),
            2 => (0u8..4).prop_map(Cmd::Wait),
            3 => Just(Cmd::Stream(3)),
            1 => Just(Cmd::Stream(0)),
            1 => (0u8..3, 0u8..3).prop_map(|(a, b)| Cmd::ChangeWin(a, b)),
            1 => (0u8..3, 0u8..2).prop_map(|(a, b)| Cmd::Search(a, b)),
            1 => (0u8..3, 0u8..2).prop_map(|(a, b)| Cmd::BinSearch(a, b)),
            1 => (0u8..3).prop_map(Cmd::Stop),
        ],
        3..12,
    )
    .prop_flat_map(|rest| (Just(rest), any::<bool>(), 2u8..4))
    .prop_map(|(rest, drained_first, w)| {
        let mut v = vec![Cmd::Open(4)];
        if drained_first {
            // let the server process (and drain) messages before the interesting part
            v.push(Cmd::Resume);
            v.push(Cmd::Wait(w));
        }
        v.extend(rest);
        v
    })
}

/// sessions in which the stages of the server's pipeline block on full channels (small capacities through the
/// hook, paused consumer): pause/wait/close/reopen orders are covered densely
fn backpressure_history() -> impl Strategy<Value = Vec<Cmd>> {
    let open = || prop::sample::select(vec![2u8, 2, 3, 6, 6, 11, 4, 19, 22]).prop_map(Cmd::Open);
    (
        0u8..3,
        open(),
        prop::bool::weighted(0.7),
        prop::collection::vec(
            prop_oneof![
                3 => Just(Cmd::Pause),
                2 => Just(Cmd::Resume),
                4 => (0u8..4).prop_map(Cmd::Wait),
                2 => Just(Cmd::Stream(0)),
                1 => Just(Cmd::Stream(1)),
                1 => Just(Cmd::Stream(3)),
                1 => Just(Cmd::Query(1)),
                3 => Just(Cmd::Close),
                2 => open(),
                1 => (0u8..3).prop_map(Cmd::Stop),
                1 => (0u8..3, 0u8..3).prop_map(|(a, b)| Cmd::ChangeWin(a, b)),
            ],
            2..14,
        ),
    )
        .prop_map(|(cap, o, pause, rest)| {
            let mut v = vec![Cmd::Cap(cap), o];
            if pause {
                v.push(Cmd::Pause);
                v.push(Cmd::Wait(3));
            }
            v.extend(rest);
            v
        })
}

#[derive(PartialEq, Clone, Copy)]
enum Mode {
    All,
    OnePass,
    None,
}

struct Model {
    open: bool,
    mode: Mode,
    resumed: bool,
    ids: Vec<(u32, bool, bool)>, // live stream/query ids, one_pass flag, is a query (may have ended by itself)
    stopped: Vec<u32>,
    plugins: bool,
}

fn check(cmds: &Vec<Cmd>, rep: &mut Rep) -> Result<(), String> {
    let xl = cmds.iter().any(|c| matches!(c, Cmd::Open(10)));
    let fdir = files_dir(xl);
    let fp = |n: &str| fdir.join(n).to_string_lossy().into_owned();
    let sb = Sandbox::new("c15");
    // parsing of bigger files is throttled so that commands land while parsing is still running
    let schedule: String = (0..60).map(|_| "1000:15").collect::<Vec<_>>().join(",");
    let cap = cmds.iter().find_map(|c| if let Cmd::Cap(k) = c { Some([64usize, 256, 2048][*k as usize % 3]) } else { None });
    let mut srv = Server::start_with(&sb.dir, Some(&schedule), cap)?;
    let mut c = Client::connect(srv.port)?;
    let mut m = Model { open: false, mode: Mode::All, resumed: false, ids: vec![], stopped: vec![], plugins: false };
    let mut malformed_to_live = false;
    let mut close_while_parsing = false;
    let mut close_while_paused = false;
    let mut cmd_to_query = false;
    let mut paused_since: Option<std::time::Instant> = None;
    let mut opened_large_at: Option<std::time::Instant> = None;
    let reply_timeout = Duration::from_secs(20);

    let mut burst_left = 0usize;
    let mut bursts = 0usize;
    let result = (|| -> Result<(), String> {
        let mut pending: Vec<(usize, String, &str)> = vec![];
        // replies to commands that were sent in a burst: one each, in order, of the expected kind
        fn drain(c: &mut Client, pending: &mut Vec<(usize, String, &str)>, timeout: Duration) -> Result<(), String> {
            for (ci, text, expect) in pending.drain(..) {
                let r = c.wait_reply(timeout).map_err(|e| format!("command #{} {:?} (sent in a burst) got no reply: {}", ci, text, e))?;
                let kind = reply_kind(&r);
                ensure!(kind != "OTHER" && expect.split('|').any(|e| e == kind), "command #{} {:?} (sent in a burst): reply kind {} but {} expected: {:?}", ci, text, kind, expect, short(&r));
            }
            Ok(())
        }
        for (ci, cm) in cmds.iter().enumerate() {
            if !pending.is_empty() && !matches!(cm, Cmd::Garbage(0..=3) | Cmd::Fs(_) | Cmd::PluginCmd(_) | Cmd::BinSearch(..) | Cmd::Search(..)) {
                burst_left = 0;
                drain(&mut c, &mut pending, reply_timeout)?;
            }
            let pick = |k: u8, m: &Model| -> (String, bool, bool) {
                // (id text, live, one_pass stream or query: the command may be refused)
                match k {
                    0 | 1 | 2 if !m.ids.is_empty() => {
                        let e = m.ids[(k as usize) % m.ids.len()];
                        (e.0.to_string(), true, e.1 || e.2)
                    }
                    3 if !m.stopped.is_empty() => (m.stopped[ci % m.stopped.len()].to_string(), false, false),
                    4 => ("99999".into(), false, false),
                    5 => ("abc".into(), false, false),
                    _ => ("0".into(), false, false),
                }
            };
            let (text, expect, word): (String, &str, &str) = match cm {
                Cmd::Wait(k) => {
                    let extra = c.pump(Duration::from_millis([20u64, 60, 150, 400][*k as usize % 4]));
                    ensure!(extra.is_empty(), "unsolicited reply frame(s): {:?}", extra);
                    continue;
                }
                Cmd::Cap(_) => continue,
                Cmd::Burst(n) => {
                    burst_left = 1 + *n as usize % 6;
                    continue;
                }
                Cmd::Open(k) => {
                    let j = match k {
                        0 | 1 => format!(r#"{{"files":["{}"]}}"#, fp("s.dlt")),
                        2 => format!(r#"{{"files":["{}"],"sort":true}}"#, fp("m.dlt")),
                        3 => format!(r#"{{"files":["{}"]}}"#, fp("l.dlt")),
                        4 => format!(r#"{{"files":["{}"],"collect":"one_pass_streams"}}"#, fp("m.dlt")),
                        5 => format!(r#"{{"files":["{}"],"collect":false}}"#, fp("s.dlt")),
                        6 => format!(r#"{{"files":["{}","{}"],"sort":true}}"#, fp("l.dlt"), fp("s.dlt")),
                        7 => "{}".to_string(),
                        8 => r#"{"files":"x"}"#.to_string(),
                        9 => "{".to_string(),
                        11 => format!(r#"{{"files":["{}"],"plugins":[{{"name":"FileTransfer","allowSave":true}},{{"name":"Rewrite","rewrites":[]}}]}}"#, fp("m.dlt")),
                        12 => format!(r#"{{"files":["{}"],"plugins":[1]}}"#, fp("s.dlt")),
                        13 => format!(r#"{{"files":["{}"]}}"#, fp("empty.dlt")),
                        14 => format!(r#"{{"files":["{}"]}}"#, fp("junk.dlt")),
                        15 => format!(r#"{{"files":["{}"]}}"#, fp("missing.dlt")),
                        16 => format!(r#"{{"files":["{}"],"collect":"all"}}"#, fp("s.dlt")),
                        17 => format!(r#"{{"files":["{}"],"collect":"none"}}"#, fp("s.dlt")),
                        18 => format!(r#"{{"files":["{}"],"collect":"bogus"}}"#, fp("s.dlt")),
                        19 => format!(r#"{{"files":["{}"]}}"#, fp("z.zip")),
                        20 => format!(r#"{{"files":["{}"]}}"#, fp("junk.zip")),
                        21 => format!(r#"{{"files":["{}","{}"]}}"#, fp("missing.zip"), fp("z.zip/**/*.dlt")),
                        22 => format!(r#"{{"files":["{}"],"plugins":[{{"name":"FileTransfer","allowSave":true}},{{"name":"Rewrite","rewrites":[]}},{{"name":"FileTransfer","allowSave":false,"apid":"XYZ"}},{{"name":"Rewrite","rewrites":[]}}]}}"#, fp("m.dlt")),
                        23 => format!(r#"{{"files":["{}"],"plugins":[{{"name":"Export","exportFileName":"{}","filters":[],"recordedTimeFromMs":18446744073709551615,"recordedTimeToMs":"18446744073709551615n"}}]}}"#, fp("s.dlt"), sb.path("export.dlt").display()),
                        24 => format!(r#"{{"files":["{}"],"plugins":[{{"name":"Muniic","jsonDir":"{}"}}]}}"#, fp("s.dlt"), fp("muniic_bad")),
                        _ => format!(r#"{{"files":["{}"]}}"#, fp("xl.dlt")),
                    };
                    let valid = *k <= 6 || *k == 10 || *k == 11 || *k == 16 || *k == 17 || *k == 22;
                    // files without messages, missing files and archives: accepted or refused, the model follows the reply
                    let either = [13u8, 14, 15, 19, 20, 21, 23, 24].contains(k);
                    (format!("open {}", j), if m.open { "err" } else if either { "ok|err" } else if !valid { "err" } else { "ok" }, "open")
                }
                Cmd::Close => ("close".into(), if m.open { "ok" } else { "err" }, "close"),
                Cmd::Pause => ("pause".into(), if m.open { "ok" } else { "err" }, "pause"),
                Cmd::Resume => ("resume".into(), if m.open { "ok" } else { "err" }, "resume"),
                Cmd::Stream(k) | Cmd::Query(k) => {
                    let is_q = matches!(cm, Cmd::Query(_));
                    let j = match k {
                        0 => r#"{"window":[0,10]}"#,
                        1 => r#"{"window":[5,1000000],"binary":true,"filters":[{"type":0,"apid":"APB"}]}"#,
                        2 => r#"{"window":[10,5]}"#,
                        3 => r#"{"window":[0,20],"one_pass":true,"filters":[{"type":0,"apid":"APA"}]}"#,
                        4 => r#"{"window":[0,20],"binary":false,"filters":[{"type":1,"ctid":"CTX"},{"type":3,"apid":"APA"}]}"#,
                        5 => r#"{"window":"a"}"#,
                        6 => r#"{"window":[1]}"#,
                        7 => r#"{"filters":[{"type":9}]}"#,
                        8 => "{",
                        _ => "",
                    };
                    let valid = *k <= 4;
                    let one_pass_req = *k == 3;
                    let exp = if !m.open || m.mode == Mode::None || !valid {
                        "err"
                    } else if *k == 2 && m.mode == Mode::All {
                        "ok|err" // inverted window: tolerated today, a refusal would be as good
                    } else if m.mode == Mode::OnePass {
                        if !one_pass_req {
                            "err"
                        } else if m.resumed {
                            "ok|err" // refused once messages have been drained (timing dependent)
                        } else {
                            "ok"
                        }
                    } else {
                        "ok"
                    };
                    (format!("{} {}", if is_q { "query" } else { "stream" }, j), exp, if is_q { "query" } else { "stream" })
                }
                Cmd::Stop(k) => {
                    let (id, live, _) = pick(*k, &m);
                    let is_query = m.ids.iter().any(|x| x.0.to_string() == id && x.2);
                    (format!("stop {}", id), if m.open && live { if is_query { "ok|err" } else { "ok" } } else { "err" }, "stop")
                }
                Cmd::ChangeWin(k, a) => {
                    let (id, live, op) = pick(*k, &m);
                    let arg = match a {
                        0 => " 0,5",
                        1 => " 3,100000",
                        2 => " 7,2",
                        3 => "",
                        4 => " x,y",
                        5 => " 5",
                        6 => " 1,2 3",
                        _ => " 0,0",
                    };
                    if live && [3u8, 5].contains(a) {
                        malformed_to_live = true;
                    }
                    (format!("stream_change_window {}{}", id, arg), if m.open && live && ![3u8, 5].contains(a) { if op || [4u8, 6].contains(a) { "ok|err" } else { "ok" } } else { "err" }, "stream_change_window")
                }
                Cmd::BinSearch(k, a) => {
                    let (id, live, op) = pick(*k, &m);
                    let arg = match a {
                        0 => " index=7",
                        1 => " time_ms=1600000000010",
                        2 => " index=999999999",
                        3 => "",
                        4 => " foo=1",
                        5 => " index",
                        6 => " time_ms=abc",
                        8 => " time_ms=18446744073709551615",
                        9 => " time_ms=18446744073709552",
                        10 => " index=18446744073709551615",
                        _ => " index=0",
                    };
                    if live && [3u8, 4, 5].contains(a) {
                        malformed_to_live = true;
                    }
                    (format!("stream_binary_search {}{}", id, arg), if m.open && live && ![3u8, 4, 5].contains(a) { "ok|err" } else { "err" }, "stream_binary_search")
                }
                Cmd::Search(k, a) => {
                    let (id, live, op) = pick(*k, &m);
                    let arg = match a {
                        0 => r#" {"filters":[{"type":0,"ecu":"ECU1"}],"max_results":3}"#,
                        1 => r#" {"filters":[],"start_idx":2,"max_results":1}"#,
                        2 => r#" {"start_idx":"a"}"#,
                        3 => "",
                        4 => " {",
                        5 => r#" {"filters":[{"type":0,"payloadRegex":"("}]}"#,
                        6 => r#" {"filters":[{"type":3,"apid":"APA"}],"start_idx":1000000}"#,
                        8 => r#" {"max_results":70368744177664}"#,
                        9 => r#" {"max_results":18446744073709551615}"#,
                        10 => r#" {"start_idx":18446744073709551615,"max_results":4294967296}"#,
                        _ => " {}",
                    };
                    if live && [2u8, 3, 4, 5].contains(a) {
                        malformed_to_live = true;
                    }
                    (format!("stream_search {}{}", id, arg), if m.open && live && [0u8, 1, 6, 7].contains(a) { if op { "ok|err" } else { "ok" } } else if m.open && live && [8u8, 9, 10].contains(a) { "ok|err" } else { "err" }, "stream_search")
                }
                Cmd::PluginCmd(k) => {
                    let j = match k {
                        0 => r#"{"name":"FileTransfer","cmd":"save","params":{"saveAs":"/nonexistent_dir/x"},"cmdCtx":{"save":{"idx":0}}}"#,
                        1 => "{",
                        2 => "[]",
                        3 => r#"{"name":1}"#,
                        4 => r#"{"name":"Rewrite","cmd":"x"}"#,
                        _ => "",
                    };
                    // a plugin that is active and supports commands answers ok (with the result of the command)
                    let e = if m.open && m.plugins && *k == 0 { "ok|err" } else { "err" };
                    (format!("plugin_cmd {}", j), e, "plugin_cmd")
                }
                Cmd::Fs(k) => {
                    let (j, e) = match k {
                        0 => (format!(r#"{{"cmd":"stat","path":"{}"}}"#, fp("s.dlt")), "ok"),
                        1 => (format!(r#"{{"cmd":"readDirectory","path":"{}"}}"#, fdir.display()), "ok"),
                        2 => (r#"{"cmd":"stat","path":"/nonexistent/x"}"#.to_string(), "err"),
                        3 => (r#"{"cmd":"foo","path":"/"}"#.to_string(), "err"),
                        4 => ("{".to_string(), "err"),
                        6 => (format!(r#"{{"cmd":"stat","path":"{}!/foo"}}"#, fp("junk.zip")), "ok|err"),
                        7 => (format!(r#"{{"cmd":"readDirectory","path":"{}!/"}}"#, fp("junk.zip")), "ok|err"),
                        8 => (format!(r#"{{"cmd":"readDirectory","path":"{}!/"}}"#, fp("dir.zip")), "ok|err"),
                        9 => (format!(r#"{{"cmd":"readDirectory","path":"{}!/"}}"#, fp("z.zip")), "ok|err"),
                        10 => (format!(r#"{{"cmd":"stat","path":"{}!/dir/m.dlt"}}"#, fp("z.zip")), "ok|err"),
                        _ => ("[1,2]".to_string(), "err"),
                    };
                    (format!("fs {}", j), e, "fs")
                }
                Cmd::Garbage(k) => {
                    let t = match k {
                        0 => "",
                        1 => "foo",
                        2 => " open",
                        3 => "STOP 1",
                        4 => "stream",
                        _ => "close now",
                    };
                    // "stream" without parameters is the stream command with an invalid body; "close now" is a close
                    let e = match k {
                        4 => "err",
                        5 => {
                            if m.open {
                                "ok"
                            } else {
                                "err"
                            }
                        }
                        _ => "unknown",
                    };
                    (t.to_string(), e, if *k == 4 { "stream" } else if *k == 5 { "close" } else { "" })
                }
            };
            let neutral = matches!(cm, Cmd::Garbage(0..=3) | Cmd::Fs(_) | Cmd::PluginCmd(_) | Cmd::BinSearch(..) | Cmd::Search(..));
            if burst_left > 0 && neutral {
                c.send(&text).map_err(|e| format!("command #{} {:?}: {}", ci, text, e))?;
                pending.push((ci, text, expect));
                burst_left -= 1;
                if pending.len() >= 2 {
                    bursts += 1;
                }
                continue;
            }
            burst_left = 0;
            drain(&mut c, &mut pending, reply_timeout)?;
            let is_close = word == "close";
            if is_close && m.open {
                if let Some(t) = opened_large_at {
                    if t.elapsed() < Duration::from_millis(600) {
                        close_while_parsing = true;
                    }
                }
            }
            if is_close && m.open {
                if let Some(t) = paused_since {
                    if t.elapsed() >= Duration::from_millis(300) {
                        close_while_paused = true;
                    }
                }
            }
            if let Cmd::Stop(k) | Cmd::ChangeWin(k, _) | Cmd::BinSearch(k, _) | Cmd::Search(k, _) = cm {
                let (id, live, _) = pick(*k, &m);
                cmd_to_query |= live && m.ids.iter().any(|x| x.0.to_string() == id && x.2);
            }
            c.send(&text).map_err(|e| format!("command #{} {:?}: {}", ci, text, e))?;
            let r = c.wait_reply(reply_timeout).map_err(|e| format!("command #{} {:?} got no reply: {} (server alive: {}; stderr: {})", ci, text, e, srv.alive(), tail(&srv.stderr_text())))?;
            if std::env::var("VERIF_DEBUG").is_ok() {
                eprintln!("C15 #{} {:?} -> {:?} (last FileInfo {:?})", ci, text, short(&r), c.last_file_info());
            }
            let kind = reply_kind(&r);
            ensure!(kind != "OTHER", "command #{} {:?}: reply is neither ok:/err: nor the unknown-command notice: {:?}", ci, text, r);
            ensure!(expect.split('|').any(|e| e == kind), "command #{} {:?}: reply kind {} but the state (open={}, one_pass={}, live ids {:?}) implies {}: {:?}", ci, text, kind, m.open, m.mode == Mode::OnePass, m.ids, expect, short(&r));
            let _ = word; // (replies name the command today; the statement does not ask for it)
            if kind == "ok" {
                match cm {
                    Cmd::Open(k) => {
                        m.open = true;
                        m.mode = match k {
                            4 => Mode::OnePass,
                            5 | 17 => Mode::None,
                            _ => Mode::All,
                        };
                        paused_since = if *k == 4 { Some(std::time::Instant::now()) } else { None };
                        m.resumed = false;
                        m.plugins = *k == 11 || *k == 22;
                        if [3u8, 6, 10].contains(k) {
                            opened_large_at = Some(std::time::Instant::now());
                        } else {
                            opened_large_at = None;
                        }
                    }
                    Cmd::Close | Cmd::Garbage(5) => {
                        m.open = false;
                        m.stopped.extend(m.ids.drain(..).map(|x| x.0));
                        opened_large_at = None;
                        paused_since = None;
                    }
                    Cmd::Resume => {
                        m.resumed = true;
                        paused_since = None;
                    }
                    Cmd::Pause => {
                        if paused_since.is_none() {
                            paused_since = Some(std::time::Instant::now());
                        }
                    }
                    Cmd::Stream(k) | Cmd::Query(k) => {
                        let id = id_in_reply(&r).ok_or(format!("ok reply to stream/query without id: {:?}", r))?;
                        ensure!(!m.ids.iter().any(|x| x.0 == id) && !m.stopped.contains(&id), "id {} announced although it is or was in use", id);
                        m.ids.push((id, *k == 3, matches!(cm, Cmd::Query(_))));
                    }
                    Cmd::Stop(k) => {
                        let (id, _, _) = pick(*k, &m);
                        let id: u32 = id.parse().unwrap();
                        m.ids.retain(|x| x.0 != id);
                        m.stopped.push(id);
                    }
                    Cmd::ChangeWin(k, _) => {
                        let (id, _, _) = pick(*k, &m);
                        let old: u32 = id.parse().unwrap();
                        if let Some(nid) = id_in_reply(&r) {
                            for x in m.ids.iter_mut() {
                                if x.0 == old {
                                    x.0 = nid;
                                }
                            }
                            if nid != old {
                                m.stopped.push(old);
                            }
                        }
                    }
                    _ => {}
                }
            }
        }
        drain(&mut c, &mut pending, reply_timeout)?;
        // no stray reply, connection and process alive
        let extra = c.pump(Duration::from_millis(150));
        ensure!(extra.is_empty(), "unsolicited reply frame(s) at the end: {:?}", extra);
        // a close always completes and a new open succeeds afterwards
        if m.open {
            let r = c.cmd("close", Duration::from_secs(60)).map_err(|e| format!("final close got no reply: {}", e))?;
            ensure!(reply_kind(&r) == "ok", "final close refused although a file is open: {:?}", r);
        }
        let r = c.cmd(&format!(r#"open {{"files":["{}"]}}"#, fp("s.dlt")), reply_timeout).map_err(|e| format!("open after close got no reply: {}", e))?;
        ensure!(reply_kind(&r) == "ok", "open after close failed: {:?}", r);
        let r = c.cmd("close", reply_timeout).map_err(|e| format!("close got no reply: {}", e))?;
        ensure_eq!(reply_kind(&r), "ok", "close after open");
        ensure!(c.socket_error.is_none(), "connection lost: {:?}", c.socket_error);
        Ok(())
    })();
    let alive = srv.alive();
    let stderr = srv.stderr_text();
    drop(c);
    drop(srv);
    result?;
    ensure!(alive, "server process died; stderr: {}", tail(&stderr));
    ensure!(!stderr.contains("panicked"), "server thread panicked: {}", tail(&stderr));
    rep.label_if(malformed_to_live, "malformed_to_live_stream");
    rep.label_if(close_while_parsing, "close_while_parsing");
    rep.label_if(cmds.iter().any(|c| matches!(c, Cmd::Open(4))), "one_pass_session");
    rep.label_if(close_while_paused, "close_while_paused");
    rep.label_if(cmd_to_query, "command_to_query_id");
    rep.label_if(cap.is_some(), "small_channels");
    rep.label_if(bursts > 0, "commands_sent_in_a_burst");
    rep.label_if(cmds.iter().any(|c| matches!(c, Cmd::Open(19 | 20 | 21))), "archive_open");
    let one_pass_resumed = cmds.iter().any(|c| matches!(c, Cmd::Open(4))) && cmds.iter().any(|c| matches!(c, Cmd::Resume)) && cmds.iter().any(|c| matches!(c, Cmd::Stream(3)));
    rep.nontrivial = malformed_to_live || close_while_parsing || (close_while_paused && cap.is_some()) || one_pass_resumed;
    Ok(())
}

fn tail(s: &str) -> String {
    let l: Vec<&str> = s.lines().rev().take(4).collect();
    l.into_iter().rev().collect::<Vec<_>>().join(" / ").chars().take(500).collect()
}
fn short(s: &str) -> String {
    s.chars().take(160).collect()
}

pub fn def(tier: Tier) -> PropertyDef {
    let xl = tier == Tier::Thorough;
    PropertyDef {
        id: "C15",
        rule: "stateful histories of 1..25 commands from a grammar over open/close/pause/resume/stream/query/stop/stream_change_window/stream_binary_search/stream_search/plugin_cmd/fs/garbage/waits with valid and invalid forms (missing/extra arguments, non-numeric, unknown and stopped ids, malformed JSON, wrong JSON types, inverted/huge windows), files: 50, 5000 and 60000 messages (parser throttled through the adlt_verif schedule hook so commands land while parsing runs), two files sorted, collect modes all/none/one_pass_streams (thorough: 2.2M messages); model {open, mode, live ids} updated from the replies; after every command exactly one reply of the kind the model implies, naming the command; no stray reply; process alive, no panic on stderr, connection open; final close completes and a new open succeeds. Non-trivial: a malformed command addressed to a live stream or a close within 600 ms after opening a big file.",
        assumptions: vec!["a missing reply within 20 s (60 s for close) counts as violation (the server polls every <= 100 ms)", "in one_pass_streams sessions a stream request after resume may be refused or accepted depending on whether messages were already drained"],
        subs: vec![sub("histories", tier.pick(400, 12_000), history(xl), check).rates(&[("malformed_to_live_stream", 0.1), ("close_while_parsing", 0.03), ("one_pass_session", 0.05), ("command_to_query_id", 0.02), ("archive_open", 0.03), ("small_channels", 0.2), ("commands_sent_in_a_burst", 0.03)]).shrink_iters(60).slow().boxed(),
            sub("one_pass_sessions", tier.pick(160, 5_000), one_pass_history(), check).rates(&[("one_pass_session", 0.9)]).shrink_iters(60).slow().boxed(),
            sub("backpressure_sessions", tier.pick(200, 6_000), backpressure_history(), check).rates(&[("small_channels", 0.9), ("close_while_paused", 0.3)]).shrink_iters(60).slow().boxed()],
        workers: 16,
    }
}
