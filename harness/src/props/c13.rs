//! C13 Bounded channels and slow consumers never lose or reorder messages
use crate::engine::*;
use crate::model::trace::*;
use crate::props::c17::{build_xfer, xfer_strategy, Tag, Xfer};
use crate::{ensure, ensure_eq};
use adlt::dlt::*;
use adlt::filter::Filter;
use adlt::lifecycle::parse_lifecycles_buffered_from_stream;
use adlt::plugins::factory::get_plugin;
use adlt::plugins::plugins_process_msgs;
use adlt::utils::eac_stats::EacStats;
use adlt::utils::{buffer_sort_messages, sync_sender_send_delay_if_full};
use proptest::prelude::*;
use serde::{Deserialize, Serialize};
use std::sync::atomic::{AtomicUsize, Ordering};
use std::sync::mpsc::{channel, sync_channel, Receiver, SendError};
use std::sync::Arc;
use std::time::{Duration, Instant};

const CAPS: [usize; 5] = [0, 1, 2, 7, 64];

#[derive(Clone, Debug, Serialize, Deserialize)]
pub struct Case {
    evs: Vec<Ev>,
    xfer: Option<Xfer>,
    caps: [u8; 5],
    plugins: bool,
    sort: bool,
    filter: bool,
    pace_prod: Vec<(u16, u8)>, // stall of ms before message at position
    pace_cons: Vec<(u16, u8)>,
    drop_after: Option<u16>,
}

type SendFn = Box<dyn Fn(DltMessage) -> Result<(), SendError<DltMessage>> + Send>;

struct Links {
    progress: Arc<AtomicUsize>,
    fulls: Arc<AtomicUsize>,
}

fn link(cap: Option<usize>, l: &Links, count_full: bool) -> (SendFn, Receiver<DltMessage>) {
    let progress = l.progress.clone();
    match cap {
        Some(c) => {
            let (tx, rx) = sync_channel::<DltMessage>(c);
            let fulls = l.fulls.clone();
            (
                Box::new(move |m: DltMessage| {
                    progress.fetch_add(1, Ordering::Relaxed);
                    if count_full {
                        // only to observe that back pressure occurred (first link, fed by the harness' producer)
                        match tx.try_send(m) {
                            Ok(()) => Ok(()),
                            Err(std::sync::mpsc::TrySendError::Full(m)) => {
                                fulls.fetch_add(1, Ordering::Relaxed);
                                sync_sender_send_delay_if_full(m, &tx)
                            }
                            Err(std::sync::mpsc::TrySendError::Disconnected(m)) => Err(SendError(m)),
                        }
                    } else {
                        sync_sender_send_delay_if_full(m, &tx)
                    }
                }),
                rx,
            )
        }
        None => {
            let (tx, rx) = channel::<DltMessage>();
            (
                Box::new(move |m: DltMessage| {
                    progress.fetch_add(1, Ordering::Relaxed);
                    tx.send(m)
                }),
                rx,
            )
        }
    }
}

struct RunOut {
    out: Vec<DltMessage>,
    table: Vec<LcRow>,
    joined: bool,
    fulls: usize,
    stage_panicked: bool,
    /// the consumer really went away before the stream ended
    dropped_early: bool,
    /// endless producer: messages accepted by the first link / the producer saw the disconnect
    produced: usize,
    prod_saw_err: bool,
}
const ENDLESS_CAP: usize = 50_000;

fn run_pipeline(c: &Case, msgs: &[DltMessage], bounded: bool, paced: bool) -> RunOut {
    let l = Links { progress: Arc::new(AtomicUsize::new(0)), fulls: Arc::new(AtomicUsize::new(0)) };
    let cap = |i: usize| if bounded { Some(CAPS[c.caps[i] as usize % CAPS.len()]) } else { None };
    let (s0, r0) = link(cap(0), &l, true);
    let (s1, r1) = link(cap(1), &l, false);
    let (s2, r2) = link(cap(2), &l, false);
    let (s3, r3) = link(cap(3), &l, false);
    let (s4, r4) = link(cap(4), &l, false);
    let (lcs_r, lcs_w) = new_lc_map();
    let input = msgs.to_vec();
    let n = input.len();
    let stalls = |p: &Vec<(u16, u8)>| -> Vec<(usize, u64)> { p.iter().map(|(pos, ms)| ((*pos as usize * (n + 1)) >> 16, *ms as u64 % 31)).collect() };
    let ps = if paced { stalls(&c.pace_prod) } else { vec![] };
    let cs = if paced { stalls(&c.pace_cons) } else { vec![] };
    // when the consumer is going to disappear the source does not end by itself (live tracing): the stream is
    // repeated with advancing clocks, so the stages can only terminate because the disconnect propagates
    // (not with the filter stage: a filter that lets nothing pass never sends and cannot notice the disconnect)
    // (disabled: propagation of the disconnect against a source that never ends is more than the statement asks for,
    // see DESIGN section 12; a stage that drains its input to the end costs minutes here)
    let endless = false && paced && c.drop_after.is_some() && n > 0 && !c.filter;
    let produced = Arc::new(AtomicUsize::new(0));
    let prod_saw_err = Arc::new(std::sync::atomic::AtomicBool::new(false));
    let (produced2, prod_saw_err2) = (produced.clone(), prod_saw_err.clone());
    let prod = std::thread::spawn(move || {
        let span = input.iter().map(|m| m.reception_time_us).max().unwrap_or(0) - input.iter().map(|m| m.reception_time_us).min().unwrap_or(0) + S;
        let mut round = 0u64;
        'outer: loop {
            for (i, m) in input.iter().enumerate() {
                let mut m = m.clone();
                if round == 0 {
                    for (p, ms) in &ps {
                        if *p == i {
                            std::thread::sleep(Duration::from_millis(*ms));
                        }
                    }
                } else {
                    m.index = (round as usize * input.len() + i) as u32;
                    m.reception_time_us += round * span;
                    if m.timestamp_dms != 0 {
                        m.timestamp_dms = m.timestamp_dms.wrapping_add((round * span / 100) as u32);
                    }
                }
                if s0(m).is_err() {
                    prod_saw_err2.store(true, Ordering::Relaxed);
                    break 'outer;
                }
                if produced2.fetch_add(1, Ordering::Relaxed) + 1 >= ENDLESS_CAP {
                    break 'outer;
                }
            }
            if !endless {
                break;
            }
            round += 1;
        }
    });
    let (wtx, wrx) = channel();
    let lc = std::thread::spawn(move || {
        let w = parse_lifecycles_buffered_from_stream(lcs_w, r0, &|m| s1(m));
        let _ = wtx.send(w);
    });
    let use_plugins = c.plugins;
    let pl = std::thread::spawn(move || {
        if use_plugins {
            let mut eac = EacStats::new();
            let cfg = serde_json::json!({"name":"FileTransfer","allowSave":false,"keepFLDA":false});
            let plugins = vec![get_plugin(cfg.as_object().unwrap(), &mut eac).unwrap()];
            let _ = plugins_process_msgs(r1, &|m| s2(m), plugins);
        } else {
            for m in r1 {
                if s2(m).is_err() {
                    break;
                }
            }
        }
    });
    let lr = lcs_r.clone();
    let sort = c.sort;
    let so = std::thread::spawn(move || {
        if sort {
            let _ = buffer_sort_messages(r2, &|m| s3(m), &lr, 3, 2 * S);
        } else {
            for m in r2 {
                if s3(m).is_err() {
                    break;
                }
            }
        }
    });
    let filter = c.filter;
    let fi = std::thread::spawn(move || {
        if filter {
            let f = vec![Filter::from_json(r#"{"type":0,"apid":"AP.","apidIsRegex":true}"#).unwrap(), Filter::from_json(r#"{"type":1,"ctid":"CTY"}"#).unwrap()];
            let _ = adlt::filter::functions::filter_as_streams(&f, &r3, &|m| s4(m));
        } else {
            for m in r3 {
                if s4(m).is_err() {
                    break;
                }
            }
        }
    });
    let drop_after = if paced { c.drop_after.map(|d| (d as usize * (n + 1)) >> 16) } else { None };
    let mut out = vec![];
    let mut dropped_early = false;
    loop {
        if let Some(k) = drop_after {
            if out.len() >= k {
                dropped_early = true;
                break;
            }
        }
        for (p, ms) in &cs {
            if *p == out.len() {
                std::thread::sleep(Duration::from_millis(*ms));
            }
        }
        match r4.recv() {
            Ok(m) => out.push(m),
            Err(_) => break,
        }
    }
    drop(r4);
    // all stages have to terminate; "blocked forever" = no progress on any link for 15 s (sleeps in the code are 10 ms)
    let handles = [prod, lc, pl, so, fi];
    let mut last = l.progress.load(Ordering::Relaxed);
    let mut last_change = Instant::now();
    let mut joined = true;
    loop {
        if handles.iter().all(|h| h.is_finished()) {
            break;
        }
        let p = l.progress.load(Ordering::Relaxed);
        if p != last {
            last = p;
            last_change = Instant::now();
        } else if last_change.elapsed() > Duration::from_secs(15) {
            joined = false;
            break;
        }
        std::thread::sleep(Duration::from_millis(2));
    }
    let mut stage_panicked = false;
    if joined {
        for h in handles {
            if h.join().is_err() {
                stage_panicked = true;
            }
        }
    }
    let mut res = DetOut::default();
    let _w = wrx.recv_timeout(Duration::from_millis(200)).ok();
    if _w.is_some() {
        read_table(&lcs_r, false, &mut res);
    }
    RunOut { out, table: res.table, joined, fulls: l.fulls.load(Ordering::Relaxed), stage_panicked, dropped_early, produced: produced.load(Ordering::Relaxed), prod_saw_err: prod_saw_err.load(Ordering::Relaxed) }
}

fn norm_ids(out: &[DltMessage]) -> Vec<(u32, usize)> {
    let mut map: Vec<u32> = vec![];
    out.iter()
        .map(|m| {
            let k = match map.iter().position(|x| *x == m.lifecycle) {
                Some(p) => p,
                None => {
                    map.push(m.lifecycle);
                    map.len() - 1
                }
            };
            (m.index, k)
        })
        .collect()
}
fn norm_table(t: &[LcRow]) -> Vec<(u32, u32, u64, u64)> {
    let mut v: Vec<(u32, u32, u64, u64)> = t.iter().map(|r| (r.ecu.as_u32le(), r.nr_msgs, r.start, r.end)).collect();
    v.sort();
    v
}

fn check(c: &Case, rep: &mut Rep) -> Result<(), String> {
    let mut msgs = build_messy(&c.evs);
    if let Some(x) = &c.xfer {
        // a small file transfer in the middle (its data packages are dropped by the plugin stage)
        let b = build_xfer(0, x, None);
        let at = msgs.len() / 2;
        let rt = msgs.get(at).map_or(BASE, |m| m.reception_time_us);
        for (k, (mut m, t)) in b.msgs.into_iter().enumerate() {
            m.reception_time_us = rt;
            m.timestamp_dms = msgs.get(at).map_or(0, |m| m.timestamp_dms);
            m.standard_header.htyp |= 0x10;
            let _ = matches!(t, Tag::Flst);
            msgs.insert(at + k, m);
        }
    }
    for (i, m) in msgs.iter_mut().enumerate() {
        m.index = i as u32;
    }
    let small = c.caps.iter().any(|k| CAPS[*k as usize % CAPS.len()] <= 1);
    if small && msgs.len() > 60 {
        msgs.truncate(60); // the helper sleeps 10 ms per full channel
    }
    let reference = run_pipeline(c, &msgs, false, false);
    ensure!(reference.joined && !reference.stage_panicked, "reference pipeline (unbounded channels) did not terminate regularly");
    let r = run_pipeline(c, &msgs, true, true);
    rep.label_if(r.fulls > 0, "back_pressure");
    rep.label_if(r.dropped_early, "consumer_dropped");
    rep.label_if(c.sort, "sorted");
    rep.label_if(small, "capacity_0_or_1");
    rep.nontrivial = r.fulls > 0;
    ensure!(r.joined, "stage threads still blocked 15 s after the consumer {} (capacities {:?})", if c.drop_after.is_some() { "disappeared" } else { "finished" }, c.caps.iter().map(|k| CAPS[*k as usize % 5]).collect::<Vec<_>>());
    if c.drop_after.is_some() {
        // the source never ends by itself here (capped at 50000 messages). A stage that keeps draining its input
        // without forwarding does not block and ends with its input: that is within the statement ("terminates
        // instead of blocking forever"), so it is only measured how often the disconnect travels up to the producer
        rep.label_if(!c.filter && !r.prod_saw_err && r.produced >= ENDLESS_CAP, "stages_drained_to_the_end_of_input");
        rep.label_if(r.prod_saw_err, "disconnect_reached_producer");
        return Ok(());
    }
    ensure!(!r.stage_panicked, "a stage thread panicked");
    ensure_eq!(r.out.len(), reference.out.len(), "number of delivered messages (bounded vs unbounded channels, capacities {:?})", c.caps.iter().map(|k| CAPS[*k as usize % 5]).collect::<Vec<_>>());
    if c.sort {
        let mut a: Vec<u32> = r.out.iter().map(|m| m.index).collect();
        let mut b: Vec<u32> = reference.out.iter().map(|m| m.index).collect();
        a.sort();
        b.sort();
        ensure!(a == b, "sorted pipeline: output is not a permutation of the reference output");
    } else {
        // "never drops, duplicates or reorders": the unsorted stages keep the order of their input
        for (what, o) in [("bounded", &r.out), ("unbounded", &reference.out)] {
            if let Some(w) = o.windows(2).find(|w| w[0].index >= w[1].index) {
                return Err(format!("unsorted pipeline ({} channels): message {} delivered before message {}", what, w[0].index, w[1].index));
            }
        }
        ensure!(norm_ids(&r.out) == norm_ids(&reference.out), "message sequence / lifecycle assignment differs from the run with unbounded channels");
        for (x, y) in r.out.iter().zip(reference.out.iter()) {
            ensure!(x.payload == y.payload && x.reception_time_us == y.reception_time_us && x.ecu == y.ecu, "message {} altered", x.index);
        }
    }
    ensure!(norm_table(&r.table) == norm_table(&reference.table), "final lifecycle table differs from the run with unbounded channels: {:?} vs {:?}", norm_table(&r.table), norm_table(&reference.table));
    Ok(())
}

pub fn def(tier: Tier) -> PropertyDef {
    let pace = || prop::collection::vec((any::<u16>(), 0u8..31), 0..5);
    let case = (
        prop::collection::vec(ev(2), 1..300),
        prop::option::weighted(0.3, xfer_strategy()),
        prop_oneof![prop::array::uniform5(0u8..5), prop::array::uniform5(2u8..5)],
        (any::<bool>(), any::<bool>(), any::<bool>()),
        (pace(), pace()),
        prop::option::weighted(0.25, any::<u16>()),
    )
        .prop_map(|(evs, xfer, caps, (plugins, sort, filter), (pace_prod, pace_cons), drop_after)| Case { evs, xfer, caps, plugins, sort, filter, pace_prod, pace_cons, drop_after });
    PropertyDef {
        id: "C13",
        rule: "pipelines producer -> lifecycle detection -> [plugins] -> [time sort] -> [filter] -> consumer assembled from the public stage functions with the blocking-send helper on every link; per-link capacity from {0,1,2,7,64}; generated messy streams (<=60 messages when a capacity <= 1, else <= 300, optionally with an embedded file transfer); producer/consumer pacing scripts (stalls 0..30 ms at generated positions); optional early consumer drop; reference = same pipeline with unbounded channels; oracle: unsorted: identical sequence and lifecycle assignment, sorted: permutation, same final lifecycle table; after consumer drop every stage terminates (no progress on any link for 15 s while threads are alive = blocked). Non-trivial: at least one send hit a full channel.",
        assumptions: vec!["interleavings are sampled through capacities and pacing, not enumerated", "'blocked forever' is decided by absence of progress for 15 s (sleeps in the code are 10 ms); slow runs keep making progress and are never flagged"],
        subs: vec![sub("bounded_pipelines", tier.pick(500, 20_000), case, check).rates(&[("back_pressure", 0.6), ("consumer_dropped", 0.12), ("capacity_0_or_1", 0.3)]).shrink_iters(80).slow().boxed()],
        workers: 16,
    }
}
