//! C16 sub check A: incremental stream index (library level, deterministic)
use crate::engine::*;
use crate::model::filter::*;
use crate::props::c12::{keep, logger};
use crate::{ensure, ensure_eq};
use adlt::dlt::DltMessage;
use adlt::utils::remote_utils::{process_stream_new_msgs, StreamContext};
use proptest::prelude::*;
use serde::{Deserialize, Serialize};

#[derive(Clone, Debug, Serialize, Deserialize)]
pub enum Step {
    Grow(u16),          // more parsed messages become available
    Call,               // server loop iteration
    Window(u16, u16),   // stream_change_window
}

type Case = (Vec<AF>, Vec<FMsg>, bool, (u16, u16), u16, Vec<Step>);

fn check(v: &Case, rep: &mut Rep) -> Result<(), String> {
    let (set, msgs, is_stream, window, chunk, steps) = v;
    let all: Vec<DltMessage> = msgs.iter().enumerate().map(|(i, m)| m.build(i as u32)).collect();
    let js: Vec<String> = set.iter().map(to_json).collect();
    let refpos: Vec<usize> = msgs.iter().enumerate().filter(|(_, m)| keep(set, m, true)).map(|(i, _)| i).collect();
    let chunk = std::cmp::max(1, *chunk as usize);
    let mut sc = StreamContext::from(
        &logger(),
        if *is_stream { "stream" } else { "query" },
        &format!(r#"{{"window":[{},{}],"filters":[{}]}}"#, window.0, window.0 as u32 + window.1 as u32, js.join(",")),
    )
    .map_err(|e| format!("StreamContext::from failed: {}", e))?;
    let mut avail = 0usize;
    let mut grew = 0;
    let mut calls = 0;
    let mut changes = 0;
    let invariant = |sc: &StreamContext, avail: usize, what: &str| -> Result<(), String> {
        ensure!(sc.all_msgs_last_processed_len <= avail, "{}: processed marker {} beyond available {}", what, sc.all_msgs_last_processed_len, avail);
        if sc.filters_active {
            ensure!(sc.filtered_msgs.windows(2).all(|w| w[0] < w[1]), "{}: filtered_msgs not strictly increasing: {:?}", what, sc.filtered_msgs);
            let exp: Vec<usize> = refpos.iter().copied().filter(|p| *p < sc.all_msgs_last_processed_len).collect();
            ensure!(sc.filtered_msgs == exp, "{}: filtered_msgs {:?} != matching positions below the processed marker {} {:?}", what, sc.filtered_msgs, sc.all_msgs_last_processed_len, exp);
        } else {
            ensure!(sc.filtered_msgs.is_empty(), "{}: filtered_msgs filled without active filters", what);
        }
        Ok(())
    };
    let call = |sc: &mut StreamContext, avail: usize| {
        let last = std::cmp::min(sc.all_msgs_last_processed_len, avail);
        process_stream_new_msgs(sc, last, &all[last..avail], chunk);
    };
    for (si, s) in steps.iter().enumerate() {
        match s {
            Step::Grow(n) => {
                let add = (*n as usize * (all.len() - avail + 1)) >> 16;
                avail += add;
                grew += 1;
            }
            Step::Call => {
                let before = (sc.all_msgs_last_processed_len, sc.filtered_msgs.len());
                call(&mut sc, avail);
                calls += 1;
                invariant(&sc, avail, &format!("after call (step {})", si))?;
                // progress
                let want_more = if sc.is_stream || !sc.filters_active { true } else { sc.filtered_msgs.len() < sc.msgs_to_send.end };
                if before.0 < avail && want_more {
                    ensure!(sc.all_msgs_last_processed_len > before.0 || sc.filtered_msgs.len() > before.1, "step {}: no progress although {} unprocessed messages are available (marker {}, {} filtered, window end {})", si, avail - before.0, before.0, before.1, sc.msgs_to_send.end);
                }
            }
            Step::Window(a, b) => {
                // what remote.rs does on stream_change_window
                let start = *a as usize % 50;
                let end = start + (*b as usize % 60);
                sc.msgs_to_send = start..end;
                sc.msgs_sent = start..start;
                changes += 1;
            }
        }
    }
    // everything arrives and the loop keeps running: bounded number of calls until caught up
    avail = all.len();
    let bound = all.len() / chunk + all.len() / 1 + 4;
    let mut k = 0;
    loop {
        let done = if sc.is_stream || !sc.filters_active { sc.all_msgs_last_processed_len >= avail } else { sc.filtered_msgs.len() >= sc.msgs_to_send.end || sc.all_msgs_last_processed_len >= avail };
        if done {
            break;
        }
        call(&mut sc, avail);
        invariant(&sc, avail, "catch up")?;
        k += 1;
        ensure!(k <= bound, "not caught up after {} calls (marker {} of {}, filtered {}, window end {})", k, sc.all_msgs_last_processed_len, avail, sc.filtered_msgs.len(), sc.msgs_to_send.end);
    }
    // the window [start,end) of the filtered sequence is available now
    if sc.filters_active {
        let end = std::cmp::min(sc.msgs_to_send.end, refpos.len());
        let start = std::cmp::min(sc.msgs_to_send.start, end);
        ensure!(sc.filtered_msgs.len() >= end, "window end {} not reachable: only {} filtered positions", end, sc.filtered_msgs.len());
        ensure_eq!(&sc.filtered_msgs[start..end], &refpos[start..end], "window content");
    }
    rep.label_if(!*is_stream, "query");
    rep.label_if(changes > 0, "window_change");
    rep.label_if(!sc.filters_active, "no_active_filters");
    let ratio = if all.is_empty() { 0.0 } else { refpos.len() as f64 / all.len() as f64 };
    rep.label_if(ratio > 0.1 && ratio < 0.9, "filter_keeps_10_90_percent");
    rep.nontrivial = all.len() >= 5 && calls >= 2 && grew >= 1 && ((ratio > 0.1 && ratio < 0.9) || changes > 0);
    Ok(())
}

pub fn def_sub(tier: Tier) -> Box<dyn DynSub> {
    let simple = (prop_oneof![3 => Just(0u8), 1 => Just(1u8), 1 => Just(3u8)], prop::option::weighted(0.7, id_crit()), prop::option::weighted(0.3, id_crit())).prop_map(|(kind, ecu, apid)| AF {
        kind,
        enabled: true,
        negated: false,
        ecu,
        apid,
        ctid: None,
        mtype: None,
        level_min: None,
        level_max: None,
        payload: None,
        ignore_case: false,
        lifecycles: None,
        explicit_regex_flags: true,
    });
    let steps = prop::collection::vec(prop_oneof![3 => any::<u16>().prop_map(Step::Grow), 5 => Just(Step::Call), 1 => (any::<u16>(), any::<u16>()).prop_map(|(a, b)| Step::Window(a, b))], 0..30);
    let strat = (
        prop::collection::vec(prop_oneof![4 => simple, 1 => af()], 0..4),
        prop::collection::vec(fmsg(), 0..200),
        any::<bool>(),
        (prop_oneof![Just(0u16), 0u16..30], prop_oneof![Just(0u16), 1u16..20, 1u16..300]),
        prop_oneof![1u16..5, 1u16..100, Just(3000u16)],
        steps,
    );
    sub("incremental_index", tier.pick(300_000, 4_000_000), strat, check).rates(&[("query", 0.3), ("window_change", 0.2), ("filter_keeps_10_90_percent", 0.15), ("no_active_filters", 0.05)]).boxed()
}
