//! C19 Plugins keep the stream intact; anonymisation keeps its structure
use crate::engine::*;
use crate::model::trace::*;
use crate::props::c17::{build_xfer, Tag, Xfer};
use crate::{ensure, ensure_eq};
use adlt::dlt::*;
use adlt::plugins::anonymize::AnonymizePlugin;
use adlt::plugins::factory::get_plugin;
use adlt::plugins::plugin::Plugin;
use adlt::plugins::plugins_process_msgs;
use adlt::utils::eac_stats::EacStats;
use proptest::prelude::*;
use serde::{Deserialize, Serialize};
use std::collections::HashMap;
use std::sync::OnceLock;

use crate::chain::repo_tests;

/// messages from the repository's example files (dlt and asc), parsed once per worker
fn pool() -> &'static Vec<DltMessage> {
    static POOL: OnceLock<Vec<DltMessage>> = OnceLock::new();
    POOL.get_or_init(|| {
        let mut v = vec![];
        let mut names: Vec<_> = std::fs::read_dir(repo_tests()).map(|rd| rd.flatten().map(|e| e.path()).collect()).unwrap_or_default();
        names.sort();
        for p in names {
            let ext = p.extension().and_then(|e| e.to_str()).unwrap_or("").to_string();
            if ext != "dlt" && ext != "asc" {
                continue;
            }
            if let Ok(data) = std::fs::read(&p) {
                let it = adlt::utils::get_dlt_message_iterator(&ext, 0, std::io::Cursor::new(data), 4242, None, None, None);
                v.extend(it.take(1500));
            }
        }
        v
    })
}

#[derive(Clone, Debug, Serialize, Deserialize)]
pub enum Item {
    Pool(u16, u8),
    NonVerbose(u8, bool, bool),
    SomeIp(u8, u8),
    Muniic(u8),
    Journal(u16, u8),
    Transfer(Xfer),
    Messy(Ev),
    /// hostile but well-shaped plugin trigger (error paths of the decoders)
    Proto(crate::props::proto::PItem),
    /// CAN frames as the ASC converter delivers them, for the channel described by /verif/data/can_fibex/can1.xml:
    /// (bus mapping line present, frames: (id selector, data))
    CanAsc(bool, Vec<(u8, Vec<u8>)>),
}

struct Enc(Vec<u8>, u8);
impl Enc {
    fn ti(&mut self, t: u32) {
        self.0.extend_from_slice(&t.to_le_bytes());
        self.1 += 1;
    }
    fn s(&mut self, s: &str) {
        self.ti(0x8200);
        self.0.extend_from_slice(&((s.len() + 1) as u16).to_le_bytes());
        self.0.extend_from_slice(s.as_bytes());
        self.0.push(0);
    }
    fn u32(&mut self, v: u32) {
        self.ti(0x43);
        self.0.extend_from_slice(&v.to_le_bytes());
    }
    fn u8(&mut self, v: u8) {
        self.ti(0x41);
        self.0.push(v);
    }
    fn raw(&mut self, d: &[u8]) {
        self.ti(0x400);
        self.0.extend_from_slice(&(d.len() as u16).to_le_bytes());
        self.0.extend_from_slice(d);
    }
}

fn base(ecu: &[u8; 4], ext: Option<DltExtendedHeader>, payload: Vec<u8>) -> DltMessage {
    DltMessage {
        index: 0,
        reception_time_us: BASE,
        ecu: DltChar4::from_buf(ecu),
        timestamp_dms: 0,
        standard_header: DltStandardHeader { htyp: 0x30 | ext.is_some() as u8, mcnt: 0, len: 0 },
        extended_header: ext,
        payload,
        payload_text: None,
        lifecycle: 1,
    }
}
fn eh(vmm: u8, noar: u8, apid: &[u8; 4], ctid: &[u8; 4]) -> Option<DltExtendedHeader> {
    Some(DltExtendedHeader { verb_mstp_mtin: vmm, noar, apid: DltChar4::from_buf(apid), ctid: DltChar4::from_buf(ctid) })
}

fn expand(items: &[Item]) -> Vec<(DltMessage, bool)> {
    // (message, is FLDA)
    let mut out: Vec<(DltMessage, bool)> = vec![];
    let p = pool();
    let mut xi = 0;
    for it in items {
        match it {
            Item::Pool(start, len) => {
                if !p.is_empty() {
                    let s = (*start as usize * p.len()) >> 16;
                    for m in p.iter().skip(s).take(*len as usize + 1) {
                        // (a data package of a file transfer recorded in an example file may be dropped as well)
                        let flda = m.payload.windows(5).take(12).any(|w| w == b"FLDA\0");
                        out.push((m.clone(), flda));
                    }
                }
            }
            Item::NonVerbose(kind, with_ext, known_ecu) => {
                let payload: Vec<u8> = match kind % 4 {
                    0 => 805312382u32.to_le_bytes().to_vec(),
                    1 => [805834673u32.to_le_bytes().to_vec(), 12345678u32.to_le_bytes().to_vec(), (-23456789i32).to_le_bytes().to_vec(), 4711u16.to_le_bytes().to_vec(), vec![42u8]].concat(),
                    2 => 800000000u32.to_le_bytes().to_vec(),
                    _ => [805834673u32.to_le_bytes().to_vec(), vec![1, 2, 3]].concat(), // known id, payload too small
                };
                let ecu = if *known_ecu { b"Ecu1" } else { b"Ecu9" };
                out.push((base(ecu, if *with_ext { eh(0x40, 0, b"APP\0", b"CON\0") } else { None }, payload), false));
            }
            Item::SomeIp(variant, val) => {
                let mut e = Enc(vec![], 0);
                e.raw(&[10, 0, 0, 1, 10, 0, 0, 2, 1]);
                let (service, method): (u16, u16) = match variant % 3 {
                    0 => (64098, 1000),
                    1 => (64098, 7),
                    _ => (1, 1),
                };
                let body = vec![*val];
                let mut h = vec![];
                h.extend_from_slice(&service.to_be_bytes());
                h.extend_from_slice(&method.to_be_bytes());
                h.extend_from_slice(&((8 + body.len()) as u32).to_be_bytes());
                h.extend_from_slice(&[0, 1, 0, 2, 1, 1, 0, 0]);
                h.extend_from_slice(&body);
                e.raw(&h);
                out.push((base(b"ECU1", eh(0x15, e.1, b"APP\0", b"TC\0\0"), e.0), false));
            }
            Item::Muniic(v) => {
                let mut e = Enc(vec![], 0);
                e.s("HmiP");
                e.u32(5711);
                e.u32(83029);
                e.u32(7);
                e.u32(0);
                e.s("InitialData...");
                e.s("[Hmi]");
                e.u32(1228779599);
                e.u32(3478824001);
                e.s("C/LC:");
                e.u8(2);
                e.u8(0);
                e.raw(&[*v & 1]);
                out.push((base(b"ECU1", eh(0x01, e.1, b"APID", b"MMSG"), e.0), false));
            }
            Item::Journal(t, w) => {
                let text = format!("2024/01/01 12:00:00.000000 {}.{:06} kernel: {}", t, 123456, WORDS[*w as usize % WORDS.len()]);
                let mut m = base(b"ECU2", eh(0x41, 1, b"SYS\0", b"JOUR"), string_payload(&text));
                m.timestamp_dms = 77;
                out.push((m, false));
            }
            Item::Transfer(x) => {
                let b = build_xfer(xi, x, None);
                xi += 1;
                for (m, t) in b.msgs {
                    out.push((m, matches!(t, Tag::Flda(_))));
                }
            }
            Item::Messy(e) => {
                out.push((build_messy(std::slice::from_ref(e)).pop().unwrap(), false));
            }
            Item::CanAsc(mapping, frames) => {
                let mut text = String::from("date Tue Apr 12 08:55:37 AM 2022\nbase hex timestamps absolute\n");
                if *mapping {
                    text.push_str("//BusMapping: CAN 1 = CAN1\n");
                }
                for (k, (id, data)) in frames.iter().enumerate() {
                    let ids = ["123", "7ff", "18fef100x", "200", "300", "555", "0"];
                    let hex: Vec<String> = data.iter().map(|b| format!("{:02x}", b)).collect();
                    // (the converter takes the data bytes only if something follows them on the line)
                    text.push_str(&format!("{}.{:06} 1 {} Rx d {} {} Length = 0 BitCount = 0\n", 1 + k / 1000, (k % 1000) * 1000, ids[*id as usize % ids.len()], data.len(), hex.join(" ")));
                }
                let it = adlt::utils::get_dlt_message_iterator("asc", 0, std::io::Cursor::new(text.into_bytes()), 4243 + xi as u32, None, None, None);
                for mut m in it {
                    m.lifecycle = 1;
                    out.push((m, false));
                }
            }
            Item::Proto(p) => {
                out.extend(crate::props::proto::build(std::slice::from_ref(p)));
            }
        }
    }
    for (i, (m, _)) in out.iter_mut().enumerate() {
        m.index = i as u32;
    }
    out
}

const PLUGIN_NAMES: [&str; 6] = ["NonVerbose", "SomeIp", "CAN", "Muniic", "Rewrite", "FileTransfer"];

/// restriction of the file transfer plugin: 0 none, 1 application id, 2 application and context id, 3 context id
fn ft_accepts(restrict: usize, m: &DltMessage) -> bool {
    let a = m.apid().map_or(false, |a| *a == DltChar4::from_buf(b"SYS\0"));
    let c = m.ctid().map_or(false, |c| *c == DltChar4::from_buf(b"FILE"));
    match restrict % 4 {
        1 => a,
        2 => a && c,
        3 => c,
        _ => true,
    }
}

fn mk_plugin(k: usize, keep_flda: bool, restrict: usize) -> Option<Box<dyn Plugin + Send>> {
    let mut eac = EacStats::new();
    let cfg = match k {
        0 => serde_json::json!({"name":"NonVerbose","fibexDir":repo_tests()}),
        1 => serde_json::json!({"name":"SomeIp","fibexDir":repo_tests()}),
        2 => serde_json::json!({"name":"CAN","fibexDir":crate::chain::can_fibex_dir()}),
        3 => serde_json::json!({"name":"Muniic","jsonDir":format!("{}/muniic", repo_tests())}),
        4 => serde_json::from_str(&std::fs::read_to_string(format!("{}/rewrite.cfg", repo_tests())).ok()?).ok()?,
        _ => {
            let mut c = serde_json::json!({"name":"FileTransfer","allowSave":false,"keepFLDA":keep_flda});
            if matches!(restrict % 4, 1 | 2) {
                c["apid"] = "SYS".into();
            }
            if matches!(restrict % 4, 2 | 3) {
                c["ctid"] = "FILE".into();
            }
            c
        }
    };
    get_plugin(cfg.as_object()?, &mut eac)
}

type Case = (Vec<u8>, bool, Vec<Item>);

fn decoders(v: &Case, rep: &mut Rep) -> Result<(), String> {
    let (sel, keep_flda, items) = v;
    // distinct plugin kinds in the given order
    let mut kinds: Vec<usize> = vec![];
    for s in sel {
        let k = *s as usize % PLUGIN_NAMES.len();
        if !kinds.contains(&k) {
            kinds.push(k);
        }
    }
    let restrict = (sel.iter().map(|x| *x as usize).sum::<usize>() + items.len()) % 4;
    let mut plugins = vec![];
    for k in &kinds {
        plugins.push(mk_plugin(*k, *keep_flda, restrict).ok_or(format!("plugin {} could not be built from the repository config", PLUGIN_NAMES[*k]))?);
    }
    let input = expand(items);
    let ft_drops = kinds.contains(&5) && !*keep_flda;
    let has_rewrite = kinds.contains(&4);
    let (tx, rx) = std::sync::mpsc::channel();
    for (m, _) in input.iter() {
        tx.send(m.clone()).unwrap();
    }
    drop(tx);
    let out = std::cell::RefCell::new(vec![]);
    let _plugins = plugins_process_msgs(rx, &|m| { out.borrow_mut().push(m); Ok(()) }, plugins).map_err(|e| format!("plugins_process_msgs error {}", e))?;
    let out = out.into_inner();
    // the output is the input without (some) file transfer data packages, and only when so configured
    let mut expected: Vec<&DltMessage> = vec![];
    let mut dropped = 0;
    {
        let mut oi = 0;
        for (m, flda) in input.iter() {
            if oi < out.len() && out[oi].index == m.index {
                expected.push(m);
                oi += 1;
            } else {
                ensure!(ft_drops && *flda && ft_accepts(restrict, m), "message {} (apid {:?} ctid {:?}) was not forwarded in its place (plugins {:?}, file transfer restriction {}); next forwarded index: {:?}", m.index, m.apid(), m.ctid(), kinds.iter().map(|k| PLUGIN_NAMES[*k]).collect::<Vec<_>>(), restrict, out.get(oi).map(|o| o.index));
                dropped += 1;
            }
        }
        ensure_eq!(oi, out.len(), "forwarded messages that are no input message in its place (duplicate/reordered); plugins {:?}", kinds.iter().map(|k| PLUGIN_NAMES[*k]).collect::<Vec<_>>());
    }
    let mut decoded = 0;
    let mut ext_filled = 0;
    let mut ts_changed = 0;
    for (o, e) in out.iter().zip(expected.iter()) {
        ensure_eq!(o.index, e.index, "message order/index");
        ensure_eq!(o.reception_time_us, e.reception_time_us, "reception time of message {}", e.index);
        ensure!(o.ecu == e.ecu, "ECU of message {} changed", e.index);
        ensure!(o.payload == e.payload, "payload bytes of message {} changed", e.index);
        ensure_eq!(o.lifecycle, e.lifecycle, "lifecycle of message {}", e.index);
        if e.extended_header.is_some() || o.extended_header.is_none() {
            ensure_eq!(o.standard_header, e.standard_header, "standard header of message {}", e.index);
        } else {
            // a filled-in extended header may be flagged in the header type
            ensure!(o.standard_header.htyp & !1 == e.standard_header.htyp & !1 && o.standard_header.mcnt == e.standard_header.mcnt, "standard header of message {} changed: {:?} -> {:?}", e.index, e.standard_header, o.standard_header);
        }
        if e.extended_header.is_some() {
            ensure_eq!(o.extended_header, e.extended_header, "existing extended header of message {} changed", e.index);
        } else if o.extended_header.is_some() {
            ext_filled += 1;
        }
        if o.timestamp_dms != e.timestamp_dms {
            ensure!(has_rewrite, "timestamp of message {} changed without the rewrite plugin", e.index);
            ts_changed += 1;
        }
        if o.payload_text != e.payload_text {
            decoded += 1;
            let ctid = e.ctid().map(|c| *c.as_buf());
            if e.mstp() == DltMessageType::NwTrace(DltMessageNwType::Can) {
                rep.label("can_text");
                rep.label_if(o.payload_text.as_deref().map_or(false, |t| t.contains("F_Engine") || t.contains("F_Max") || t.contains("F_Ext") || t.contains("F_Mux")), "can_frame_decoded");
            } else if ctid == Some(*b"TC\0\0") {
                rep.label("someip_text");
            } else if ctid == Some(*b"MMSG") {
                rep.label("muniic_text");
            } else if ctid == Some(*b"JOUR") {
                rep.label("rewrite_text");

            } else if !e.is_verbose() {
                rep.label("nonverbose_text");
            }
        }
    }
    rep.label_if(decoded > 0, "text_decoded");
    rep.label_if(ext_filled > 0, "ext_header_filled");
    rep.label_if(ts_changed > 0, "timestamp_rewritten");
    rep.label_if(dropped > 0, "flda_dropped");
    rep.label_if(ft_drops && input.iter().any(|(m, flda)| *flda && !ft_accepts(restrict, m)), "data_package_outside_of_the_plugins_restriction");
    rep.label_if(items.iter().any(|i| matches!(i, Item::Proto(_))), "hostile_trigger");
    rep.label_if(kinds.len() >= 2, "ge2_plugins");
    rep.nontrivial = decoded > 0 && kinds.len() >= 2;
    Ok(())
}

// ------------------------------------------------------------------ anonymise
#[derive(Clone, Debug, Serialize, Deserialize)]
pub struct AEv {
    ecu: u8,
    drt: u32,
    mode: u8,
    val: u32,
    apid: u8,
    ctid: u8,
    kind: u8,
}
fn aev(n_ecus: u8, n_ids: u8) -> impl Strategy<Value = AEv> {
    (0u8..n_ecus, prop_oneof![0u32..2_000_000, 0u32..40_000_000], 0u8..6, 0u32..3_000_000, 0u8..n_ids, 0u8..n_ids, prop_oneof![8 => Just(0u8), 1 => Just(1u8), 2 => Just(2u8)]).prop_map(|(ecu, drt, mode, val, apid, ctid, kind)| AEv { ecu, drt, mode, val, apid, ctid, kind })
}
fn id_for(prefix: u8, n: u8) -> DltChar4 {
    DltChar4::from_buf(&[prefix, b'0' + n / 36, if n % 36 < 10 { b'0' + n % 36 } else { b'a' + n % 36 - 10 }, 0])
}
fn build_anon(evs: &[AEv]) -> Vec<DltMessage> {
    let mut clock = BASE;
    let mut up = [0u64; 8];
    evs.iter()
        .enumerate()
        .map(|(i, e)| {
            clock += e.drt as u64;
            let k = (e.ecu % 8) as usize;
            up[k] += e.drt as u64;
            if e.mode == 4 {
                up[k] = e.val as u64 % (3 * S);
            }
            let ts = if e.mode == 5 { (up[k] / 100) as u32 - ((up[k] / 100) as u32).min(e.val % 300_000) } else { (up[k] / 100) as u32 };
            let vmm = if e.kind == 1 { (3 << 1) | (1 << 4) } else { 0x41 };
            let mut m = DltMessage {
                index: i as u32,
                reception_time_us: clock,
                ecu: id_for(b'E', e.ecu),
                timestamp_dms: ts,
                standard_header: DltStandardHeader { htyp: 0x31, mcnt: i as u8, len: 0 },
                extended_header: Some(DltExtendedHeader { verb_mstp_mtin: vmm, noar: 0, apid: id_for(b'A', e.apid), ctid: id_for(b'C', e.ctid) }),
                payload: vec![1, 2, 3, 4, 5, 6],
                payload_text: None,
                lifecycle: 0,
            };
            if e.kind == 2 {
                m.extended_header = None;
                m.standard_header.htyp = 0x30;
            }
            m
        })
        .collect()
}

/// the anonymiser on `msgs`: times/index untouched, id mapping a function and injective; returns (anonymised, nr of ECUs)
fn anon_mapping(msgs: &[DltMessage]) -> Result<(Vec<DltMessage>, usize), String> {
    let mut anon = AnonymizePlugin::new("anon");
    let mut amsgs = vec![];
    for m in msgs.iter().cloned() {
        let mut m = m;
        ensure!(anon.process_msg(&mut m), "anonymiser dropped message");
        amsgs.push(m);
    }
    let mut emap: HashMap<u32, DltChar4> = HashMap::new();
    let mut amap: HashMap<(u32, u32), DltChar4> = HashMap::new();
    let mut cmap: HashMap<(u32, u32, u32), DltChar4> = HashMap::new();
    for (o, a) in msgs.iter().zip(amsgs.iter()) {
        ensure_eq!(o.reception_time_us, a.reception_time_us, "reception time of message {}", o.index);
        ensure_eq!(o.timestamp_dms, a.timestamp_dms, "timestamp of message {}", o.index);
        ensure_eq!(o.index, a.index, "index");
        let e = emap.entry(o.ecu.as_u32le()).or_insert(a.ecu);
        ensure!(*e == a.ecu, "ECU {:?} mapped to two pseudonyms {:?} and {:?}", o.ecu, e, a.ecu);
        match (o.apid(), a.apid()) {
            (Some(oa), Some(aa)) => {
                let x = amap.entry((o.ecu.as_u32le(), oa.as_u32le())).or_insert(*aa);
                ensure!(*x == *aa, "APID {:?} of {:?} mapped to two pseudonyms", oa, o.ecu);
                let oc = o.ctid().unwrap();
                let ac = a.ctid().ok_or("ctid lost")?;
                let y = cmap.entry((o.ecu.as_u32le(), oa.as_u32le(), oc.as_u32le())).or_insert(*ac);
                ensure!(*y == *ac, "CTID {:?} mapped to two pseudonyms", oc);
            }
            (None, None) => {}
            _ => return Err(format!("extended header presence changed for message {}", o.index)),
        }
    }
    let distinct = |vals: Vec<u32>| -> bool {
        let n = vals.len();
        let mut v = vals;
        v.sort();
        v.dedup();
        v.len() == n
    };
    ensure!(distinct(emap.values().map(|c| c.as_u32le()).collect()), "two ECUs share a pseudonym: {:?}", emap.values().collect::<Vec<_>>());
    for ecu in emap.keys() {
        ensure!(distinct(amap.iter().filter(|(k, _)| k.0 == *ecu).map(|(_, v)| v.as_u32le()).collect()), "two APIDs of one ECU share a pseudonym");
        for ap in amap.keys().filter(|k| k.0 == *ecu) {
            ensure!(distinct(cmap.iter().filter(|(k, _)| k.0 == *ecu && k.1 == ap.1).map(|(_, v)| v.as_u32le()).collect()), "two CTIDs of one ECU/APID share a pseudonym");
        }
    }
    Ok((amsgs, emap.len()))
}

/// id populations up to the pseudonym capacity (999 per kind: three decimal digits)
fn anonymise_capacity(v: &(u8, u16, u16, Vec<u16>), rep: &mut Rep) -> Result<(), String> {
    let (kind, n, stride, repeats) = v;
    let n = std::cmp::max(2, *n as usize % 1000); // 2..=999
    let idn = |prefix: u8, k: usize| DltChar4::from_buf(&[prefix, b"0123456789abcdefghijklmnopqrstuvwxyz"[k / 36 % 36], b"0123456789abcdefghijklmnopqrstuvwxyz"[k % 36], b"0123456789abcdefghijklmnopqrstuvwxyz"[k / 1296 % 36]]);
    // every id once in a scrambled order, then repeats
    let mut stride = std::cmp::max(1, *stride as usize % n);
    while gcd(stride, n) != 1 {
        stride += 1;
    }
    let order: Vec<usize> = (0..n).map(|i| i * stride % n).chain(repeats.iter().map(|r| *r as usize % n)).collect();
    let msgs: Vec<DltMessage> = order
        .iter()
        .enumerate()
        .map(|(i, k)| {
            let (e, a, c) = match kind % 3 {
                0 => (*k, 0, 0),
                1 => (0, *k, k % 2),
                _ => (0, k % 3, *k),
            };
            DltMessage {
                index: i as u32,
                reception_time_us: BASE + i as u64 * 1000,
                ecu: idn(b'E', e),
                timestamp_dms: i as u32 * 10,
                standard_header: DltStandardHeader { htyp: 0x31, mcnt: i as u8, len: 0 },
                extended_header: Some(DltExtendedHeader { verb_mstp_mtin: 0x41, noar: 0, apid: idn(b'A', a), ctid: idn(b'C', c) }),
                payload: vec![1, 2, 3, 4, 5, 6],
                payload_text: None,
                lifecycle: 0,
            }
        })
        .collect();
    anon_mapping(&msgs)?;
    rep.label(["ecu_population", "apid_population", "ctid_population"][*kind as usize % 3]);
    rep.label_if(n > 900, "gt900_ids");
    rep.label_if(n == 999, "at_capacity");
    rep.nontrivial = n > 40;
    Ok(())
}
fn gcd(a: usize, b: usize) -> usize {
    if b == 0 {
        a
    } else {
        gcd(b, a % b)
    }
}

fn anonymise(evs: &Vec<AEv>, rep: &mut Rep) -> Result<(), String> {
    let msgs = build_anon(evs);
    let (amsgs, n_ecus) = anon_mapping(&msgs)?;
    // lifecycle structure of original vs anonymised
    let opts = DetOpts { cross_thread: false, paced: false, want_listing: false };
    let (r1, _a, _b) = run_detector(msgs.clone(), &opts, None);
    let (r2, _c, _d) = run_detector(amsgs, &opts, None);
    ensure_eq!(r1.out.len(), r2.out.len(), "detector output length");
    let norm = |o: &[DltMessage]| -> Vec<usize> {
        let mut ids: Vec<u32> = vec![];
        o.iter()
            .map(|m| match ids.iter().position(|x| *x == m.lifecycle) {
                Some(p) => p,
                None => {
                    ids.push(m.lifecycle);
                    ids.len() - 1
                }
            })
            .collect()
    };
    ensure!(norm(&r1.out) == norm(&r2.out), "lifecycle partition of the anonymised trace differs from the original");
    let key = |r: &DetOut| -> Vec<(u32, u64, u64)> {
        let mut ids: Vec<u32> = vec![];
        for m in &r.out {
            if !ids.contains(&m.lifecycle) {
                ids.push(m.lifecycle);
            }
        }
        ids.iter().filter_map(|id| r.table.iter().find(|x| x.id == *id).map(|x| (x.nr_msgs, x.start, x.end))).collect()
    };
    ensure!(key(&r1) == key(&r2), "lifecycle boundaries/counts of the anonymised trace differ: {:?} vs {:?}", key(&r1), key(&r2));
    ensure_eq!(r1.table.len(), r2.table.len(), "number of lifecycles");
    rep.label_if(n_ecus >= 2, "ge2_ecus");
    rep.label_if(r1.table.len() >= 2, "ge2_lifecycles");
    rep.label_if(r1.table.len() > 3, "gt3_lifecycles");
    rep.label_if(msgs.iter().any(|m| m.extended_header.is_none()), "msg_without_ext_header");
    rep.nontrivial = n_ecus >= 2 && r1.table.len() >= 2;
    Ok(())
}

pub fn def(tier: Tier) -> PropertyDef {
    let xfer = crate::props::c17::xfer_strategy();
    let item = prop_oneof![
        4 => (any::<u16>(), 0u8..12).prop_map(|(a, b)| Item::Pool(a, b)),
        3 => (0u8..4, any::<bool>(), prop::bool::weighted(0.8)).prop_map(|(a, b, c)| Item::NonVerbose(a, b, c)),
        2 => (0u8..3, any::<u8>()).prop_map(|(a, b)| Item::SomeIp(a, b)),
        2 => any::<u8>().prop_map(Item::Muniic),
        2 => (0u16..5000, 0u8..8).prop_map(|(a, b)| Item::Journal(a, b)),
        1 => xfer.prop_map(Item::Transfer),
        3 => ev(3).prop_map(Item::Messy),
        5 => crate::props::proto::pitem().prop_map(Item::Proto),
        2 => (prop::bool::weighted(0.7), prop::collection::vec((0u8..7, prop_oneof![3 => Just(vec![0x2a, 0xfc, 0xe6, 0xd5, 0xfe, 0x0c, 0xa0, 0x05]), 3 => prop::collection::vec(any::<u8>(), 8), 2 => prop::collection::vec(any::<u8>(), 0..12)]), 1..8)).prop_map(|(m, f)| Item::CanAsc(m, f)),
    ];
    let case = (prop::collection::vec(0u8..6, 0..7), any::<bool>(), prop::collection::vec(item, 1..25));
    PropertyDef {
        id: "C19",
        rule: "streams mixing messages from the repository example files (dlt, asc/CAN), trigger shapes (non-verbose ids of tests/non_verbose*.xml incl. too short payloads and unknown ECU, SOME/IP service/method ids of tests/fibex1.xml, Muniic 13-argument messages, SYS/JOUR lines for tests/rewrite.cfg, FLST/FLDA/FLFI transfers, data packages also from other applications/contexts) and arbitrary traffic, through plugins_process_msgs with every subset/order of {NonVerbose, SomeIp, CAN, Muniic, Rewrite, FileTransfer(keepFLDA on/off; unrestricted / apid / apid+ctid / ctid)} built by factory::get_plugin from the repository configs; oracle: output = input minus FLDA of the configured application/context when configured; index, reception time, ECU, payload, lifecycle, standard header, existing extended header untouched; timestamp only with Rewrite. Anonymise: populations of 1..8 ECUs x up to 40 APIDs/CTIDs; mapping function + injective, times untouched, detector on original and anonymised trace gives the same partition, starts, ends, counts. Non-trivial: >=1 message text decoded and >=2 plugins; anonymise: >=2 ECUs and >=2 lifecycles.",
        assumptions: vec!["plugins are configured from /repo/tests (fibex1.xml, non_verbose*.xml, muniic, rewrite.cfg); the repository FIBEX describes no CAN channel: the CAN plugin is configured with /verif/data/can_fibex/can1.xml (one channel, 5 frames: odd-sized signed/unsigned signals in both byte orders, float, text table, multiplexed PDU, a byte field that cannot be decoded) and fed with frames produced by the ASC converter", "control responses are not part of the anonymise stream (their payload is rewritten on purpose)"],
        subs: vec![
            sub("decoder_plugins", tier.pick(150_000, 2_000_000), case, decoders).rates(&[("text_decoded", 0.3), ("ge2_plugins", 0.5), ("flda_dropped", 0.02), ("data_package_outside_of_the_plugins_restriction", 0.004), ("ext_header_filled", 0.03), ("timestamp_rewritten", 0.03), ("someip_text", 0.02), ("muniic_text", 0.02), ("nonverbose_text", 0.05), ("rewrite_text", 0.03), ("hostile_trigger", 0.5), ("can_frame_decoded", 0.03)]).shrink_iters(300).boxed(),
            sub("anonymise", tier.pick(150_000, 2_000_000), prop::collection::vec(aev(3, 4), 1..80), anonymise).rates(&[("ge2_ecus", 0.5), ("gt3_lifecycles", 0.3), ("msg_without_ext_header", 0.3)]).boxed(),
            crate::props::binsubs::c19_sub(tier),
            sub("anonymise_many_ids", tier.pick(8_000, 100_000), prop::collection::vec(aev(8, 40), 50..400), anonymise).boxed(),
            sub("anonymise_capacity", tier.pick(3_000, 40_000), (0u8..3, prop_oneof![3 => 2u16..1000, 1 => 900u16..1000, 1 => Just(999u16)], any::<u16>(), prop::collection::vec(any::<u16>(), 0..60)), anonymise_capacity).rates(&[("gt900_ids", 0.2), ("at_capacity", 0.1), ("ecu_population", 0.2), ("apid_population", 0.2), ("ctid_population", 0.2)]).boxed(),
        ],
        workers: 16,
    }
}
