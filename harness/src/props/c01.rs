//! C01 DLT framing: complete, faithful recovery of messages between garbage
use crate::engine::*;
use crate::model::wire::*;
use crate::{ensure, ensure_eq};
use adlt::utils::DltMessageIterator;
use proptest::prelude::*;

pub fn check_stream(v: &(Stream, u32), rep: &mut Rep) -> Result<(), String> {
    let (stream, start) = v;
    let enc = match stream.encode_clean() {
        Some(e) => e,
        None => {
            rep.label("discarded_unrepairable_marker");
            return Ok(());
        }
    };
    rep.label_if(enc.repairs > 0, "marker_repaired");
    rep.label_if(stream.serial, "serial");
    rep.label_if(!stream.serial, "storage");
    let n = enc.msgs.len();
    // every index has to be representable: a start index too close to the end is moved so that the last message gets u32::MAX
    let start = &(if n > 0 && start.checked_add(n as u32 - 1).is_none() { u32::MAX - (n as u32 - 1) } else { *start });
    rep.label_if(n > 0 && *start == u32::MAX - (n as u32 - 1), "last_index_is_u32_max");
    let first_start = enc.msgs.first().map(|m| m.0);
    rep.label_if(
        stream.serial && first_start.map_or(false, |s| enc.bytes.len() - s < 20),
        "serial_first_msg_in_last_19_bytes",
    );
    let big = enc.msgs.iter().any(|m| m.1.payload.len > 255);
    rep.label_if(big, "payload_gt_255");
    rep.label_if(enc.msgs.iter().any(|m| m.1.payload.len > 60000), "payload_gt_60000");
    rep.label_if(enc.garbage_total > 0, "has_garbage");
    rep.label_if(enc.garbage_trailing > 0, "trailing_garbage");
    rep.nontrivial = (n >= 2 && enc.garbage_runs >= 1) || big;

    let mut it = DltMessageIterator::new(*start, std::io::Cursor::new(&enc.bytes[..]));
    // the production callers attach a logger (extra bookkeeping of skipped bytes runs only then)
    let logger = slog::Logger::root(slog::Discard, slog::o!());
    let with_logger = start % 2 == 1;
    if with_logger {
        it.log = Some(&logger);
    }
    rep.label_if(with_logger, "with_logger");
    let mut got = vec![];
    // counters are read by callers while iterating: after message i everything up to its end is accounted for
    let mut garbage_before = 0usize;
    let mut prev_end = 0usize;
    while let Some(m) = it.next() {
        let i = got.len();
        got.push(m);
        ensure!(got.len() <= n, "more messages than in the stream ({} > {})", got.len(), n);
        let (off, w) = &enc.msgs[i];
        garbage_before += off - prev_end;
        prev_end = off + w.encoded_len(stream.serial);
        ensure_eq!(it.bytes_processed, prev_end, "bytes_processed after message #{}", i);
        ensure_eq!(it.bytes_skipped, garbage_before, "bytes_skipped after message #{}", i);
    }
    ensure_eq!(got.len(), n, "number of messages");
    for (i, (g, (_off, w))) in got.iter().zip(enc.msgs.iter()).enumerate() {
        let mut exp = w.expected(start.wrapping_add(i as u32), stream.serial);
        if stream.serial {
            // a serial frame carries no reception time and (without WEID) no ECU id: what the reader fills in is its choice
            exp.reception_time_us = g.reception_time_us;
            if w.htyp & HTYP_WEID == 0 {
                exp.ecu = g.ecu;
            }
        }
        if *g != exp {
            return Err(format!("message #{} differs: got {:?} expected {:?}", i, short(g), short(&exp)));
        }
        // ids byte for byte (DltChar4 equality could hide a normalisation done on both sides)
        if w.htyp & HTYP_WEID != 0 {
            ensure!(g.ecu.as_buf() == &w.ecu, "message #{}: ECU id bytes {:02x?} != {:02x?}", i, g.ecu.as_buf(), w.ecu);
        } else if !stream.serial {
            ensure!(g.ecu.as_buf() == &w.storage_ecu, "message #{}: storage header ECU id bytes {:02x?} != {:02x?}", i, g.ecu.as_buf(), w.storage_ecu);
        }
        if let Some(eh) = &g.extended_header {
            ensure!(eh.apid.as_buf() == &w.ext.2 && eh.ctid.as_buf() == &w.ext.3, "message #{}: APID/CTID bytes differ from the stream", i);
        }
    }
    ensure_eq!(it.index, start.wrapping_add(n as u32), "iterator index after exhaustion");
    let len = enc.bytes.len();
    ensure!(it.bytes_processed <= len, "bytes_processed {} > input {}", it.bytes_processed, len);
    let unconsumed = len - it.bytes_processed;
    let allowed = if n == 0 {
        std::cmp::min(len, 19)
    } else if stream.serial {
        std::cmp::min(enc.garbage_trailing, 7)
    } else {
        std::cmp::min(enc.garbage_trailing, 19)
    };
    ensure!(unconsumed <= allowed, "unconsumed {} bytes > allowed {} (trailing garbage {})", unconsumed, allowed, enc.garbage_trailing);
    ensure_eq!(it.bytes_skipped, enc.garbage_total - unconsumed, "bytes_skipped vs garbage ({} total, {} unconsumed)", enc.garbage_total, unconsumed);
    if n > 0 {
        ensure_eq!(it.detected_serial_header, stream.serial, "detected_serial_header");
        ensure_eq!(it.detected_storage_header, !stream.serial, "detected_storage_header");
    }
    Ok(())
}

fn short(m: &adlt::dlt::DltMessage) -> String {
    format!(
        "idx {} rt {} ecu {:?} ts {} sh {:?} eh {:?} payload[{}] {:02x?}",
        m.index,
        m.reception_time_us,
        m.ecu,
        m.timestamp_dms,
        m.standard_header,
        m.extended_header,
        m.payload.len(),
        &m.payload[..std::cmp::min(8, m.payload.len())]
    )
}

pub fn def(tier: Tier) -> PropertyDef {
    let start = prop_oneof![2 => Just(0u32), 2 => 0u32..1000, 2 => 0u32..(u32::MAX - 100), 1 => (u32::MAX - 50)..=u32::MAX];
    let subs = vec![
        sub(
            "framing_small",
            tier.pick(300_000, 3_000_000),
            (stream(20, false, 300), start.clone()),
            check_stream,
        )
        .rates(&[("serial", 0.3), ("storage", 0.3), ("has_garbage", 0.3), ("trailing_garbage", 0.1), ("with_logger", 0.2), ("serial_first_msg_in_last_19_bytes", 0.0005), ("last_index_is_u32_max", 0.02)])
        .boxed(),
        sub(
            "framing_huge",
            tier.pick(30_000, 400_000),
            (stream(8, true, 5000), start),
            check_stream,
        )
        .rates(&[("payload_gt_60000", 0.05)])
        .boxed(),
        crate::fuzzing::fuzz_sub("framing", "fuzz_framing", tier.pick(20_000, 200_000)),
    ];
    PropertyDef {
        id: "C01",
        rule: "M-STREAM: generated sequences of garbage runs (marker-free bytes incl. partial markers D/DL/DLT/DLS) and well-formed DLT v1 messages (all 32 htyp flag combinations incl. version bits, payload 0..max for the flags, arbitrary ids/counter/times) of one framing; encoded by the harness' own encoder, made marker clean by construction; read with DltMessageIterator over a Cursor and compared field by field with the model incl. counters. Non-trivial: >=2 messages and >=1 non-empty garbage run, or a payload > 255 bytes; distinct by hash of the generated model.",
        assumptions: vec![
            "streams where a frame marker occurs outside of message starts are outside the property (repaired by construction, counted)",
            "a trailing run < 20 bytes (storage) / < 8 bytes (serial) may stay unconsumed",
        ],
        subs,
        workers: 16,
    }
}
