//! hostile but well-shaped trigger messages for the stateful/decoding plugins: the message *shape* (ids, number
//! and types of arguments) is what the plugin expects, the values are not (zero/huge sizes and counts, unknown
//! or repeated ids, short bodies). Used by C03 (nothing may crash) and C19 (the stream stays intact).
use adlt::dlt::*;
use proptest::prelude::*;
use serde::{Deserialize, Serialize};

#[derive(Clone, Debug, Serialize, Deserialize)]
pub enum PItem {
    /// SOME/IP segmented transfer: start (segment id, header length selector, nr of chunks, chunk size), chunk, end
    Nwst { id: u8, hdr: u8, n: u8, cs: u8, be: bool },
    Nwch { id: u8, nr: u8, len: u8, be: bool },
    Nwen { id: u8, be: bool },
    /// plain SOME/IP message: instance part length selector, service/method selector, length field selector, type, return code
    SomeIp { inst: u8, svc: u8, lenf: u8, mtype: u8, rc: u8, body: Vec<u8> },
    /// non-verbose message with a message id known to the repository's FIBEX (or not) and a body of any length
    NonVerbose { id: u8, ecu: u8, ext: bool, body: Vec<u8>, be: bool },
    Flst { serial: u8, name: u8, size: u8, pkgs: u8, buf: u8, width: u8, be: bool },
    /// `near_miss` != 0: looks like a data package (5 arguments, first one "FLDA") but the trailing marker is something else
    Flda { serial: u8, nr: u8, len: u8, width: u8, signed: bool, be: bool, #[serde(default)] near_miss: u8, #[serde(default)] src: u8 },
    Flfi { serial: u8, width: u8, be: bool },
    /// CAN frame as produced by the asc converter (frame id, data)
    Can { frame: u8, len: u8 },
    /// Muniic message with a number of arguments around the expected 13 and odd values
    Muniic { nargs: u8, odd: u8 },
}

const U16H: [u16; 10] = [0, 1, 2, 3, 5, 8, 16, 1000, 0xfffe, 0xffff];
const U64H: [u64; 14] = [0, 1, 2, 3, 16, 255, 65535, 65536, 1 << 31, u32::MAX as u64, 1 << 32, 1 << 53, i64::MAX as u64, u64::MAX];

struct Enc {
    be: bool,
    p: Vec<u8>,
    n: u8,
}
impl Enc {
    fn new(be: bool) -> Enc {
        Enc { be, p: vec![], n: 0 }
    }
    fn ti(&mut self, t: u32) {
        self.p.extend_from_slice(&if self.be { t.to_be_bytes() } else { t.to_le_bytes() });
        self.n += 1;
    }
    fn l16(&mut self, l: usize) {
        let l = l as u16;
        self.p.extend_from_slice(&if self.be { l.to_be_bytes() } else { l.to_le_bytes() });
    }
    fn ascii(&mut self, s: &str) {
        self.ti(0x200);
        self.l16(s.len() + 1);
        self.p.extend_from_slice(s.as_bytes());
        self.p.push(0);
    }
    fn utf8(&mut self, s: &str) {
        self.ti(0x8200);
        self.l16(s.len() + 1);
        self.p.extend_from_slice(s.as_bytes());
        self.p.push(0);
    }
    /// width: 0 = 8 bit, 1 = 16, 2 = 32, 3 = 64 (value truncated); signed: SINT instead of UINT
    fn int(&mut self, v: u64, width: u8, signed: bool) {
        let base = if signed { 0x20 } else { 0x40 };
        let w = width % 4;
        self.ti(base | (w as u32 + 1));
        let b = if self.be { v.to_be_bytes() } else { v.to_le_bytes() };
        let n = 1usize << w;
        if self.be {
            self.p.extend_from_slice(&b[8 - n..]);
        } else {
            self.p.extend_from_slice(&b[..n]);
        }
    }
    fn raw(&mut self, d: &[u8]) {
        self.ti(0x400);
        self.l16(d.len());
        self.p.extend_from_slice(d);
    }
    /// ASCII string argument with exactly these bytes (no terminator added)
    fn ascii_bytes(&mut self, d: &[u8]) {
        self.ti(0x200);
        self.l16(d.len());
        self.p.extend_from_slice(d);
    }
}

fn msg(ecu: &[u8; 4], be: bool, ext: Option<(u8, u8, &[u8; 4], &[u8; 4])>, payload: Vec<u8>) -> DltMessage {
    DltMessage {
        index: 0,
        reception_time_us: 1_600_000_000_000_000,
        ecu: DltChar4::from_buf(ecu),
        timestamp_dms: 0,
        standard_header: DltStandardHeader { htyp: 0x30 | ext.is_some() as u8 | if be { 2 } else { 0 }, mcnt: 0, len: 0 },
        extended_header: ext.map(|(vmm, noar, a, c)| DltExtendedHeader { verb_mstp_mtin: vmm, noar, apid: DltChar4::from_buf(a), ctid: DltChar4::from_buf(c) }),
        payload,
        payload_text: None,
        lifecycle: 1,
    }
}

/// (message, is a file transfer data package shape (may be dropped by the FileTransfer plugin))
pub fn build(items: &[PItem]) -> Vec<(DltMessage, bool)> {
    let mut out = vec![];
    let nw_ipc = 0x01 | 2 << 1 | 1 << 4; // verbose, nw trace, ipc
    let nw_can = 0x01 | 2 << 1 | 2 << 4;
    for it in items {
        match it {
            PItem::Nwst { id, hdr, n, cs, be } => {
                let mut e = Enc::new(*be);
                e.ascii("NWST");
                e.raw(&(if *id < 3 { *id as u32 } else { 100 + *id as u32 }).to_le_bytes());
                let hl = [9usize, 10, 12, 5, 0][*hdr as usize % 5];
                e.raw(&vec![1u8; hl]);
                e.raw(&[0]);
                e.raw(&U16H[*n as usize % U16H.len()].to_le_bytes());
                e.raw(&U16H[*cs as usize % U16H.len()].to_le_bytes());
                out.push((msg(b"ECU1", *be, Some((nw_ipc, e.n, b"APP\0", b"TC\0\0")), e.p), false));
            }
            PItem::Nwch { id, nr, len, be } => {
                let mut e = Enc::new(*be);
                e.ascii("NWCH");
                e.raw(&(*id as u32 % 3).to_le_bytes());
                e.raw(&[0u16, 1, 2, 3, 0xffff][*nr as usize % 5].to_le_bytes());
                let l = [0usize, 1, 2, 3, 5, 8, 16, 17, 1000][*len as usize % 9];
                e.raw(&vec![0x11u8; l]);
                out.push((msg(b"ECU1", *be, Some((nw_ipc, e.n, b"APP\0", b"TC\0\0")), e.p), false));
            }
            PItem::Nwen { id, be } => {
                let mut e = Enc::new(*be);
                e.ascii("NWEN");
                e.raw(&(*id as u32 % 3).to_le_bytes());
                out.push((msg(b"ECU1", *be, Some((nw_ipc, e.n, b"APP\0", b"TC\0\0")), e.p), false));
            }
            PItem::SomeIp { inst, svc, lenf, mtype, rc, body } => {
                let mut e = Enc::new(false);
                let il = [9usize, 10, 12][*inst as usize % 3];
                e.raw(&vec![1u8; il]);
                let (service, method): (u16, u16) = [(64098, 1000), (64098, 7), (1, 1), (64098, 0x8001), (0xffff, 0xffff)][*svc as usize % 5];
                let mut h = vec![];
                h.extend_from_slice(&service.to_be_bytes());
                h.extend_from_slice(&method.to_be_bytes());
                let lf: u32 = match lenf % 5 {
                    0 => 8 + body.len() as u32,
                    1 => 0,
                    2 => 7,
                    3 => u32::MAX,
                    _ => 8 + body.len() as u32 + 1,
                };
                h.extend_from_slice(&lf.to_be_bytes());
                h.extend_from_slice(&[0, 1, 0, 2, 1, 1, *mtype, *rc]);
                h.extend_from_slice(body);
                // sometimes cut inside the 16 byte header
                if *lenf >= 200 {
                    h.truncate(*lenf as usize % 16);
                }
                e.raw(&h);
                out.push((msg(b"ECU1", false, Some((nw_ipc, e.n, b"APP\0", b"TC\0\0")), e.p), false));
            }
            PItem::NonVerbose { id, ecu, ext, body, be } => {
                let mid: u32 = [805312382u32, 805834673, 800000000, 0, u32::MAX][*id as usize % 5];
                let mut p = if *be { mid.to_be_bytes().to_vec() } else { mid.to_le_bytes().to_vec() };
                p.extend_from_slice(body);
                let ecu: &[u8; 4] = [b"Ecu1", b"Ecu9", b"ECU1"][*ecu as usize % 3];
                out.push((msg(ecu, *be, if *ext { Some((0x40, 0, b"APP\0", b"CON\0")) } else { None }, p), false));
            }
            PItem::Flst { serial, name, size, pkgs, buf, width, be } => {
                let mut e = Enc::new(*be);
                e.ascii("FLST");
                e.int(if *serial < 3 { *serial as u64 } else { 100 + *serial as u64 }, *width, false);
                e.utf8(["a.bin", "", "../x", "/abs/y", "d/e.txt"][*name as usize % 5]);
                e.int(U64H[*size as usize % U64H.len()], width / 4, false);
                e.utf8("2024-01-01");
                e.int(U64H[*pkgs as usize % U64H.len()], width / 16, width & 0x80 != 0);
                e.int(U64H[*buf as usize % U64H.len()], width / 64, false);
                e.ascii("FLST");
                out.push((msg(b"ECU1", *be, Some((0x41, e.n, b"SYS\0", b"FILE")), e.p), false));
            }
            PItem::Flda { serial, nr, len, width, signed, be, near_miss, src } => {
                let mut e = Enc::new(*be);
                match near_miss % 8 {
                    4 => e.raw(b"FLDA\0"),         // (raw bytes, no string)
                    5 => e.ascii_bytes(b"FLDAX"), // (another word of five bytes)
                    _ => e.ascii("FLDA"),
                }
                e.int(*serial as u64 % 3, *width, false);
                e.int(U64H[*nr as usize % U64H.len()], width / 4, *signed);
                let l = [0usize, 1, 2, 16, 255, 1000][*len as usize % 6];
                e.raw(&vec![0x22u8; l]);
                match near_miss % 8 {
                    1 => e.ascii("done"),
                    2 => e.ascii("FLDA sent"),
                    3 => e.utf8("FLDA"), // (string coding differs)
                    4 | 6 => e.raw(b"FLDA\0"),
                    5 | 7 => e.ascii_bytes(b"FLDAY"),
                    _ => e.ascii("FLDA"),
                }
                // only a real data package (first and last argument "FLDA") may be dropped by the plugin
                // (sent by the usual SYS/FILE, by another context of that application, by the same context id of another application ...)
                let (apid, ctid): (&[u8; 4], &[u8; 4]) = match src % 8 {
                    5 => (b"SYS\0", b"JOUR"),
                    6 => (b"NAV\0", b"FILE"),
                    7 => (b"NAV\0", b"MAP\0"),
                    _ => (b"SYS\0", b"FILE"),
                };
                out.push((msg(b"ECU1", *be, Some((0x41, e.n, apid, ctid)), e.p), near_miss % 8 == 0));
            }
            PItem::Flfi { serial, width, be } => {
                let mut e = Enc::new(*be);
                e.ascii("FLFI");
                e.int(*serial as u64 % 3, *width, false);
                e.ascii("FLFI");
                out.push((msg(b"ECU1", *be, Some((0x41, e.n, b"SYS\0", b"FILE")), e.p), false));
            }
            PItem::Can { frame, len } => {
                let mut e = Enc::new(false);
                let fid: u32 = [0x123u32, 0x7ff, 0, 0x1fff_ffff, u32::MAX, 0x80000123][*frame as usize % 6];
                e.raw(&fid.to_le_bytes());
                let l = [0usize, 1, 8, 9, 64, 65][*len as usize % 6];
                e.raw(&vec![0x33u8; l]);
                out.push((msg(b"CAN1", false, Some((nw_can, e.n, b"CAN\0", b"TC\0\0")), e.p), false));
            }
            PItem::Muniic { nargs, odd } => {
                let mut e = Enc::new(false);
                e.ascii("HmiP");
                let n = [13u8, 12, 14, 2, 0][*nargs as usize % 5];
                for k in 1..n {
                    match (k as usize + *odd as usize) % 4 {
                        0 => e.int(U64H[(*odd as usize + k as usize) % U64H.len()], 2, false),
                        1 => e.utf8("C/LC:"),
                        2 => e.int(*odd as u64, 0, false),
                        _ => e.raw(&[*odd]),
                    }
                }
                out.push((msg(b"ECU1", false, Some((0x01, e.n, b"APID", b"MMSG")), e.p), false));
            }
        }
    }
    for (i, (m, _)) in out.iter_mut().enumerate() {
        m.index = i as u32;
        m.reception_time_us += i as u64 * 1000;
        m.timestamp_dms = i as u32 * 10;
        m.standard_header.mcnt = i as u8;
    }
    out
}

pub fn pitem() -> impl Strategy<Value = PItem> {
    let body = || prop::collection::vec(any::<u8>(), 0..40);
    prop_oneof![
        3 => (0u8..3, any::<u8>(), any::<u8>(), any::<u8>(), prop::bool::weighted(0.1)).prop_map(|(id, hdr, n, cs, be)| PItem::Nwst { id, hdr, n, cs, be }),
        4 => (0u8..3, any::<u8>(), any::<u8>(), prop::bool::weighted(0.1)).prop_map(|(id, nr, len, be)| PItem::Nwch { id, nr, len, be }),
        2 => (0u8..3, prop::bool::weighted(0.1)).prop_map(|(id, be)| PItem::Nwen { id, be }),
        3 => (any::<u8>(), any::<u8>(), any::<u8>(), prop_oneof![Just(0u8), Just(1), Just(2), Just(0x80), Just(0x81), any::<u8>()], any::<u8>(), body()).prop_map(|(inst, svc, lenf, mtype, rc, body)| PItem::SomeIp { inst, svc, lenf, mtype, rc, body }),
        4 => (any::<u8>(), any::<u8>(), any::<bool>(), body(), prop::bool::weighted(0.2)).prop_map(|(id, ecu, ext, body, be)| PItem::NonVerbose { id, ecu, ext, body, be }),
        3 => (0u8..3, any::<u8>(), any::<u8>(), any::<u8>(), any::<u8>(), any::<u8>(), prop::bool::weighted(0.2)).prop_map(|(serial, name, size, pkgs, buf, width, be)| PItem::Flst { serial, name, size, pkgs, buf, width, be }),
        4 => (0u8..3, any::<u8>(), any::<u8>(), any::<u8>(), prop::bool::weighted(0.3), prop::bool::weighted(0.2), (prop_oneof![3 => Just(0u8), 2 => 1u8..8], prop_oneof![3 => Just(0u8), 2 => 5u8..8])).prop_map(|(serial, nr, len, width, signed, be, (near_miss, src))| PItem::Flda { serial, nr, len, width, signed, be, near_miss, src }),
        2 => (0u8..3, any::<u8>(), prop::bool::weighted(0.2)).prop_map(|(serial, width, be)| PItem::Flfi { serial, width, be }),
        2 => (any::<u8>(), any::<u8>()).prop_map(|(frame, len)| PItem::Can { frame, len }),
        2 => (any::<u8>(), any::<u8>()).prop_map(|(nargs, odd)| PItem::Muniic { nargs, odd }),
    ]
}
