//! binary level sub checks of C02 (convert -o twice), C07 (lifecycle listing) and C19 (--anon keeps the lifecycle structure)
use crate::engine::*;
use crate::model::trace::*;
use crate::model::wire::*;
use crate::props::c02::same_content;
use crate::props::c14::{parse_listing, run_convert, Sandbox};
use crate::{ensure, ensure_eq};
use adlt::dlt::DltMessage;
use adlt::utils::DltMessageIterator;
use proptest::prelude::*;

fn s(p: &std::path::Path) -> String {
    p.to_string_lossy().into_owned()
}

fn c02_export(stream: &Stream, rep: &mut Rep) -> Result<(), String> {
    let enc = match stream.encode_clean() {
        Some(e) => e,
        None => return Ok(()),
    };
    let msgs: Vec<DltMessage> = DltMessageIterator::new(0, std::io::Cursor::new(&enc.bytes[..])).collect();
    if msgs.is_empty() {
        rep.label("no_message");
        return Ok(());
    }
    let sb = Sandbox::new("c02bin");
    // in a third of the cases the input is a file in normal form whose payloads contain frame markers
    let (msgs, in_bytes) = if stream.elems.len() % 3 == 0 {
        let mut msgs = msgs;
        let mut b = vec![];
        for (k, m) in msgs.iter_mut().enumerate() {
            // (not into near-maximum messages: that is the input class of the listed finding F04)
            if m.payload.len() >= 4 && m.payload.len() < 65_400 && k % 2 == 0 {
                let p = (k * 7) % (m.payload.len() - 3);
                m.payload[p..p + 4].copy_from_slice(if k % 4 == 0 { b"DLT\x01" } else { b"DLS\x01" });
            }
            m.to_write(&mut b).map_err(|e| e.to_string())?;
        }
        rep.label("frame_marker_in_payload");
        // what the file holds, as read back
        let msgs: Vec<DltMessage> = {
            let mut v = vec![];
            let mut off = 0;
            while off < b.len() {
                let (n, m) = adlt::dlt::parse_dlt_with_storage_header(v.len() as u32, &b[off..]).map_err(|e| format!("harness: normal form file does not parse: {:?}", e.kind()))?;
                v.push(m);
                off += n;
            }
            v
        };
        (msgs, b)
    } else {
        (msgs, enc.bytes.clone())
    };
    std::fs::write(sb.path("in.dlt"), &in_bytes).map_err(|e| e.to_string())?;
    run_convert(&["-o".into(), s(&sb.path("out1.dlt")), s(&sb.path("in.dlt"))])?;
    let b1 = std::fs::read(sb.path("out1.dlt")).map_err(|e| format!("no output file: {}", e))?;
    let out: Vec<DltMessage> = DltMessageIterator::new(0, std::io::Cursor::new(&b1[..])).collect();
    ensure_eq!(out.len(), msgs.len(), "messages in the exported file");
    for (a, b) in msgs.iter().zip(out.iter()) {
        same_content(a, b).map_err(|e| format!("exported message {} differs in {}", a.index, e))?;
    }
    run_convert(&["-o".into(), s(&sb.path("out2.dlt")), s(&sb.path("out1.dlt"))])?;
    let b2 = std::fs::read(sb.path("out2.dlt")).map_err(|e| format!("no second output file: {}", e))?;
    ensure!(b1 == b2, "exporting the export is not byte identical ({} vs {} bytes)", b1.len(), b2.len());
    rep.label_if(stream.serial, "serial_input");
    rep.label_if(enc.garbage_total > 0, "garbage_in_input");
    rep.nontrivial = msgs.len() >= 2 && msgs.iter().any(|m| m.standard_header.htyp & (HTYP_WEID | HTYP_WSID | HTYP_MSBF) != 0);
    Ok(())
}

fn write_msgs(path: &std::path::Path, msgs: &[DltMessage]) -> Result<(), String> {
    let mut b = vec![];
    for m in msgs {
        m.to_write(&mut b).map_err(|e| e.to_string())?;
    }
    std::fs::write(path, b).map_err(|e| e.to_string())
}

fn c07_listing(evs: &Vec<Ev>, rep: &mut Rep) -> Result<(), String> {
    // what survives a file: messages as re-read from the written bytes
    let mut bytes = vec![];
    for m in build_messy(evs) {
        m.to_write(&mut bytes).map_err(|e| e.to_string())?;
    }
    let msgs: Vec<DltMessage> = DltMessageIterator::new(0, std::io::Cursor::new(&bytes[..])).collect();
    let sb = Sandbox::new("c07bin");
    std::fs::write(sb.path("in.dlt"), &bytes).map_err(|e| e.to_string())?;
    let (stdout, _) = run_convert(&[s(&sb.path("in.dlt"))])?;
    let listing = parse_listing(&stdout).ok_or(format!("lifecycle listing not produced / not parsable: {:?}", stdout.chars().take(200).collect::<String>()))?;
    let (res, _r, _w) = run_detector(msgs.clone(), &DetOpts { cross_thread: false, paced: false, want_listing: true }, None);
    let lib_listing = res.listing.clone().ok_or("library listing failed")?;
    let lib: Vec<(String, u32)> = lib_listing.iter().map(|id| res.table.iter().find(|r| r.id == *id).map(|r| (format!("{}", r.ecu), r.nr_msgs)).unwrap()).collect();
    let bin: Vec<(String, u32)> = listing.iter().map(|(_, e, n)| (e.clone(), *n)).collect();
    ensure_eq!(bin.len(), lib.len(), "number of lifecycles listed by convert vs library table");
    ensure!(bin == lib, "lifecycle listing of convert {:?} differs from the library's table/listing {:?}", bin, lib);
    let sum: u32 = bin.iter().map(|x| x.1).sum();
    ensure_eq!(sum as usize, msgs.len(), "listed message counts add up to the number of messages");
    let mut ids: Vec<u32> = listing.iter().map(|x| x.0).collect();
    ids.sort();
    ids.dedup();
    ensure_eq!(ids.len(), listing.len(), "each lifecycle listed once");
    rep.label_if(lib.len() >= 3, "ge3_lifecycles");
    rep.nontrivial = lib.len() >= 3;
    Ok(())
}

/// the lifecycle listing a remote client builds from the server's lifecycle update frames (latest frame per id wins)
/// against the lifecycle ids of the messages the same session delivers
fn c07_remote_listing(v: &(Vec<Ev>, u8), rep: &mut Rep) -> Result<(), String> {
    c07_remote_listing_x(v, rep, false)
}
/// `strict`: without the exclusion of the listed finding F07c (only used to replay its pinned reproducer)
fn c07_remote_listing_x(v: &(Vec<Ev>, u8), rep: &mut Rep, strict: bool) -> Result<(), String> {
    use crate::model::remote::*;
    use std::time::Duration;
    let (evs, throttle) = v;
    let mut bytes = vec![];
    for m in build_messy(evs) {
        m.to_write(&mut bytes).map_err(|e| e.to_string())?;
    }
    let msgs: Vec<DltMessage> = DltMessageIterator::new(0, std::io::Cursor::new(&bytes[..])).collect();
    let total = msgs.len();
    let sb = Sandbox::new("c07rem");
    std::fs::write(sb.path("in.dlt"), &bytes).map_err(|e| e.to_string())?;
    let schedule = match throttle % 3 {
        0 => None,
        1 => Some("3:40,3:40,5:40,10:40,20:40,40:40".to_string()),
        _ => Some((0..20).map(|_| "7:15").collect::<Vec<_>>().join(",")),
    };
    let mut srv = Server::start(&sb.dir, schedule.as_deref())?;
    let mut c = Client::connect(srv.port)?;
    // the library detector on the same messages tells which lifecycles were withdrawn (merged) on the way: the server
    // process allocates the same ids in the same order, starting at 1
    let withdrawn: Vec<u32> = {
        let (res, _r, _w) = run_detector(msgs.clone(), &DetOpts { cross_thread: false, paced: false, want_listing: false }, None);
        (0..res.ids_allocated).map(|k| res.first_id.wrapping_add(k)).filter(|id| !res.table.iter().any(|r| r.id == *id)).map(|id| id.wrapping_sub(res.first_id) + 1).collect()
    };
    let mut known_stale = false;
    let result = (|| -> Result<(usize, usize), String> {
        let r = c.cmd(&format!(r#"open {{"files":["{}"]}}"#, sb.path("in.dlt").display()), Duration::from_secs(20))?;
        ensure!(r.starts_with("ok:"), "open failed: {}", r);
        let r = c.cmd(&format!(r#"stream {{"window":[0,{}],"binary":true}}"#, total + 10), Duration::from_secs(20))?;
        ensure!(r.starts_with("ok:"), "stream refused: {}", r);
        let id = id_in_reply(&r).ok_or("no id")?;
        ensure!(c.wait_for(Duration::from_secs(20), &|log| log.iter().any(|f| matches!(f, Frame::FileInfo(n) if *n as usize >= total))), "file never reported as parsed");
        c.wait_for(Duration::from_secs(15), &|log| log.iter().map(|f| if let Frame::Msgs(i, m) = f { if *i == id { m.len() } else { 0 } } else { 0 }).sum::<usize>() >= total);
        c.pump(Duration::from_millis(120));
        let delivered: Vec<&RMsg> = c.log.iter().filter_map(|f| if let Frame::Msgs(i, m) = f { if *i == id { Some(m.iter()) } else { None } } else { None }).flatten().collect();
        ensure_eq!(delivered.len(), total, "messages delivered by the unfiltered stream");
        // the client's table
        let mut table: std::collections::BTreeMap<u32, (u32, u32)> = Default::default();
        let mut frames = 0;
        for f in &c.log {
            if let Frame::Lifecycles(l) = f {
                frames += 1;
                for (lid, ecu, nr) in l {
                    table.insert(*lid, (*ecu, *nr));
                }
            }
        }
        let mut per_lc: std::collections::BTreeMap<u32, (u32, u32, bool)> = Default::default(); // ecu, count, only control requests
        for m in &delivered {
            let e = per_lc.entry(m.lifecycle).or_insert((m.ecu, 0, true));
            e.1 += 1;
            let ctrl_req = m.htyp & 1 == 1 && (m.vmm >> 1) & 7 == 3 && (m.vmm >> 4) == 1;
            e.2 &= ctrl_req;
            ensure!(m.lifecycle != 0, "message {} delivered without lifecycle", m.index);
            ensure_eq!(e.0, m.ecu, "lifecycle {} carries messages of two ECUs", m.lifecycle);
        }
        for (lid, (ecu, nr)) in &table {
            match per_lc.get(lid) {
                Some((e, n, _)) => ensure!(e == ecu && n == nr, "lifecycle {} is listed with ecu {:x} and {} messages, the delivered messages say ecu {:x} and {}", lid, ecu, nr, e, n),
                None if !strict && withdrawn.contains(lid) => known_stale = true, // listed finding F07c
                None => return Err(format!("the client's listing keeps lifecycle {} ({} messages) that no delivered message refers to (withdrawn lifecycle never retracted?)", lid, nr)),
            }
        }
        for (lid, (_, n, only_ctrl)) in &per_lc {
            ensure!(table.contains_key(lid) || *only_ctrl, "lifecycle {} of {} delivered messages never appeared in a lifecycle update", lid, n);
        }
        let r = c.cmd("close", Duration::from_secs(60))?;
        ensure!(r.starts_with("ok:"), "close failed: {}", r);
        Ok((table.len(), frames))
    })();
    let alive = srv.alive();
    let stderr = srv.stderr_text();
    drop(c);
    drop(srv);
    let (n_lcs, frames) = result?;
    ensure!(alive && !stderr.contains("panicked"), "server died or panicked: {}", stderr.lines().rev().take(3).collect::<Vec<_>>().join(" / "));
    if known_stale {
        rep.known = Some("F07c");
        return Ok(());
    }
    rep.label_if(!withdrawn.is_empty(), "lifecycle_withdrawn_on_the_way");
    rep.label_if(n_lcs >= 3, "ge3_lifecycles");
    rep.label_if(frames >= 2, "ge2_lifecycle_update_frames");
    rep.nontrivial = n_lcs >= 3;
    Ok(())
}
pub fn c07_remote_sub(tier: Tier) -> Box<dyn DynSub> {
    sub("binary_remote_listing", tier.pick(200, 5_000), (prop::collection::vec(ev(3), 1..150), 0u8..3), c07_remote_listing).rates(&[("ge3_lifecycles", 0.4), ("ge2_lifecycle_update_frames", 0.1)]).shrink_iters(60).slow().boxed()
}

/// only used to replay the pinned reproducer of the open finding F07c (no exclusion)
pub fn c07_remote_strict_sub() -> Box<dyn DynSub> {
    sub("f07c_strict", 0, (prop::collection::vec(ev(3), 1..150), 0u8..3), |v, r| c07_remote_listing_x(v, r, true)).slow().boxed()
}

fn c19_anon(v: &(Vec<EcuTrace>, Vec<u16>), rep: &mut Rep) -> Result<(), String> {
    let (ecus, choices) = v;
    let seqs: Vec<Vec<DltMessage>> = ecus.iter().map(|e| e.build().0.into_iter().map(|x| x.0).collect()).collect();
    let msgs = interleave(&seqs, choices);
    let sb = Sandbox::new("c19bin");
    write_msgs(&sb.path("in.dlt"), &msgs)?;
    let (orig, _) = run_convert(&[s(&sb.path("in.dlt"))])?;
    run_convert(&["--anon".into(), "-o".into(), s(&sb.path("anon.dlt")), s(&sb.path("in.dlt"))])?;
    let (anon, _) = run_convert(&[s(&sb.path("anon.dlt"))])?;
    // listing lines without the ECU name: "LC#  1: ECUA <start> - <end> #   12"
    let strip = |out: &str| -> Option<Vec<String>> {
        let l = parse_listing(out)?;
        let mut v: Vec<String> = out.lines().filter(|x| x.starts_with("LC#")).map(|x| {
            let rest = x.split_once(':').map(|p| p.1.trim_start()).unwrap_or("");
            rest.split_once(' ').map(|p| p.1.to_string()).unwrap_or_default()
        }).collect();
        v.truncate(l.len());
        Some(v)
    };
    let a = strip(&orig).ok_or("no listing for the original")?;
    let b = strip(&anon).ok_or("no listing for the anonymised file")?;
    ensure!(a == b, "lifecycles of the anonymised file differ from the original: {:?} vs {:?}", b, a);
    // times and number of messages untouched in the written file
    let data = std::fs::read(sb.path("anon.dlt")).map_err(|e| e.to_string())?;
    let am: Vec<DltMessage> = DltMessageIterator::new(0, std::io::Cursor::new(&data[..])).collect();
    ensure_eq!(am.len(), msgs.len(), "messages in the anonymised file");
    for (x, y) in msgs.iter().zip(am.iter()) {
        ensure!(x.reception_time_us == y.reception_time_us && x.timestamp_dms == y.timestamp_dms, "times changed by --anon");
    }
    rep.label_if(ecus.len() >= 2, "ge2_ecus");
    rep.nontrivial = ecus.len() >= 2 && a.len() >= 2;
    Ok(())
}

pub fn c02_sub(tier: Tier) -> Box<dyn DynSub> {
    sub("binary_export_twice", tier.pick(300, 8_000), stream(12, true, 200), c02_export).rates(&[("garbage_in_input", 0.3)]).shrink_iters(100).slow().boxed()
}
/// files larger than convert's read buffer (512 KiB) made of near-maximum messages: a message that straddles a refill
/// must be seen completely (the callers' low-water mark), nothing may be cut off silently
pub fn c02_sub_large(tier: Tier) -> Box<dyn DynSub> {
    let big = (any::<bool>(), prop::collection::vec((crate::model::wire::wmsg(true), prop_oneof![3 => 40_000usize..65_000, 2 => 65_000usize..65_536, 1 => 0usize..300]), 10..30), prop::collection::vec(crate::model::wire::garbage(200), 0..3)).prop_map(|(serial, msgs, garbage)| {
        let mut elems = vec![];
        for (i, (mut m, len)) in msgs.into_iter().enumerate() {
            m.payload.len = std::cmp::min(len, WMsg::max_payload(m.htyp));
            if let Some(g) = garbage.get(i) {
                elems.push(Elem::G(g.clone()));
            }
            elems.push(Elem::M(m));
        }
        Stream { serial, elems }
    });
    sub("binary_export_large", tier.pick(48, 1_000), big, |st: &Stream, rep: &mut Rep| {
        let r = c02_export(st, rep);
        rep.label("file_larger_than_read_buffer");
        r
    })
    .shrink_iters(40)
    .slow()
    .boxed()
}
/// a near-maximum message that begins a little less / a little more than its own size before the end of what convert
/// reads in one go (512 KiB): it is complete in the buffer only if the reader refills early enough (low-water mark >=
/// the largest message). (window end - n, total size of the big message, filler size selector, messages behind)
fn c02_refill_edge(v: &(u32, u32, u16, u8), rep: &mut Rep) -> Result<(), String> {
    let (n, total, fsel, behind) = v;
    const WINDOW: usize = 512 * 1024;
    let plain = |i: usize, payload_len: usize| DltMessage {
        index: i as u32,
        reception_time_us: 1_600_000_000_000_000 + i as u64 * 1000,
        ecu: adlt::dlt::DltChar4::from_buf(b"ECU1"),
        timestamp_dms: 0,
        standard_header: adlt::dlt::DltStandardHeader { htyp: 0x20, mcnt: i as u8, len: 0 },
        extended_header: None,
        payload: (0..payload_len).map(|k| ((k * 31 + i) % 251) as u8).collect(), // (no byte 0x01: no frame marker)
        payload_text: None,
        lifecycle: 0,
    };
    let mut msgs = vec![];
    let mut remaining = WINDOW - *n as usize;
    while remaining > 0 {
        let mut size = std::cmp::min(remaining, 20 + (*fsel as usize * (msgs.len() + 3)) % 3000);
        if remaining - size > 0 && remaining - size < 20 {
            size = if size >= 40 { size - 20 } else { remaining };
        }
        if size < 20 || size > 65_551 {
            return Err(format!("harness: filler size {}", size));
        }
        msgs.push(plain(msgs.len(), size - 20));
        remaining -= size;
    }
    let big_at = msgs.len();
    msgs.push(plain(big_at, *total as usize - 20));
    for _ in 0..*behind {
        msgs.push(plain(msgs.len(), 5));
    }
    // a second big message at whatever position the first one left the reader in
    msgs.push(plain(msgs.len(), 65_551 - 20 - (*fsel as usize % 30)));
    msgs.push(plain(msgs.len(), 7));
    let sb = Sandbox::new("c02edge");
    write_msgs(&sb.path("in.dlt"), &msgs)?;
    run_convert(&["-o".into(), s(&sb.path("out.dlt")), s(&sb.path("in.dlt"))])?;
    let b_in = std::fs::read(sb.path("in.dlt")).map_err(|e| e.to_string())?;
    let b_out = std::fs::read(sb.path("out.dlt")).map_err(|e| format!("no output file: {}", e))?;
    let out: Vec<DltMessage> = DltMessageIterator::new(0, std::io::Cursor::new(&b_out[..])).collect();
    rep.label_if((*n as usize) < *total as usize && *n >= 60_000, "big_message_straddles_the_window_end");
    rep.label_if(*n >= 65_536 && (*n as usize) < *total as usize, "begins_64k_to_its_size_before_the_end");
    rep.nontrivial = (*n as usize) < *total as usize;
    ensure_eq!(out.len(), msgs.len(), "messages in the exported file (big message #{} of {} bytes begins {} bytes before the first 512 KiB end)", big_at, total, n);
    for (a, b) in msgs.iter().zip(out.iter()) {
        same_content(a, b).map_err(|e| format!("exported message {} differs in {}", a.index, e))?;
    }
    ensure!(b_in == b_out, "export of a file in normal form is not byte identical");
    Ok(())
}
pub fn c02_sub_edge(tier: Tier) -> Box<dyn DynSub> {
    let total = prop_oneof![2 => Just(65_551u32), 2 => 65_521u32..=65_551, 1 => 60_000u32..=65_551];
    let strat = total.prop_flat_map(|t| (prop_oneof![3 => (t - 40)..(t + 6), 2 => 65_530u32..65_560, 1 => 60_000u32..(t + 6), 1 => 20u32..70_000], Just(t), any::<u16>(), 0u8..12));
    sub("binary_export_refill_edge", tier.pick(60, 1_500), strat, c02_refill_edge)
        .rates(&[("big_message_straddles_the_window_end", 0.3), ("begins_64k_to_its_size_before_the_end", 0.15)])
        .shrink_iters(40)
        .slow()
        .boxed()
}
pub fn c07_sub(tier: Tier) -> Box<dyn DynSub> {
    sub("binary_listing", tier.pick(300, 8_000), prop::collection::vec(ev(3), 1..120), c07_listing).rates(&[("ge3_lifecycles", 0.4)]).shrink_iters(100).slow().boxed()
}
pub fn c19_sub(tier: Tier) -> Box<dyn DynSub> {
    let strat = (1usize..=3).prop_flat_map(|n| {
        let ecus: Vec<_> = (0..n).map(|e| ecu_trace(e as u8, 3, 12, false)).collect();
        (ecus, prop::collection::vec(any::<u16>(), 0..20))
    });
    sub("binary_anon_listing", tier.pick(200, 5_000), strat, c19_anon).rates(&[("ge2_ecus", 0.4)]).shrink_iters(100).slow().boxed()
}
