//! C14 convert selects exactly what its options say, and writes what it selected (binary level)
use crate::engine::*;
use crate::model::filter::*;
use crate::model::trace::*;
use crate::props::c02::same_content;
use crate::{ensure, ensure_eq};
use adlt::dlt::*;
use adlt::utils::DltMessageIterator;
use proptest::prelude::*;
use serde::{Deserialize, Serialize};
use std::io::Write;
use std::path::{Path, PathBuf};


#[derive(Clone, Debug, Serialize, Deserialize)]
pub struct Group {
    pub ecus: Vec<EcuTrace>,
    pub choices: Vec<u16>,
    pub split: Option<u16>,
    pub garbage: Vec<u16>,
}
#[derive(Clone, Debug, Serialize, Deserialize)]
pub struct Opts {
    pub window: Option<(u16, u16)>,
    pub lcs: Option<Vec<u16>>,
    pub eac: Vec<AF>,
    pub ffile: u8,
    pub ffilters: Vec<AF>,
    pub conv_pairs: Vec<(u8, u8)>,
    pub sort: bool,
    pub style: u8,
    pub out: bool,
    pub permute: u16,
    pub tie_first: bool,
    /// capacity of the bounded channels between convert's stages (hook ADLT_VERIF_CHANNEL_CAP): 0 = as built
    #[serde(default)]
    pub chan_cap: u8,
}
#[derive(Clone, Debug, Serialize, Deserialize)]
pub struct Case {
    pub groups: Vec<Group>,
    pub opts: Opts,
}

pub struct FileData {
    pub name: String,
    pub msgs: Vec<DltMessage>,
    pub bytes: Vec<u8>,
}

/// files of the case (in argument order) and per message ground truth (ecu, boot) via the message content
pub fn build_files(groups: &[Group], tie_first: bool) -> Vec<FileData> {
    let mut files = vec![];
    for (gi, g) in groups.iter().enumerate() {
        let mut seqs = vec![];
        for (ei, e) in g.ecus.iter().enumerate() {
            let mut e = e.clone();
            e.ecu = (gi * 2 + ei) as u8;
            let (m, _) = e.build();
            seqs.push(m.into_iter().map(|x| x.0).collect::<Vec<_>>());
        }
        let all: Vec<DltMessage> = interleave(&seqs, &g.choices);
        // a single-ECU group may be split into two files at a boot boundary (so that the files are sequential in time)
        let nboots = g.ecus[0].boots.len();
        let parts: Vec<Vec<DltMessage>> = match (g.split, g.ecus.len()) {
            (Some(s), 1) if nboots >= 2 => {
                let kb = 1 + ((s as usize * (nboots - 1)) >> 16);
                let cut: usize = g.ecus[0].boots[..kb].iter().map(|b| b.msgs.len()).sum();
                vec![all[..cut].to_vec(), all[cut..].to_vec()]
            }
            _ => vec![all],
        };
        for (pi, mut msgs) in parts.into_iter().enumerate() {
            if msgs.is_empty() {
                continue;
            }
            if tie_first && pi == 1 {
                // same ECU set and equal first reception time as the first file of the group
                let t = files.last().map(|f: &FileData| f.msgs[0].reception_time_us).unwrap();
                msgs[0].reception_time_us = t;
            }
            let mut bytes = vec![];
            for (i, m) in msgs.iter().enumerate() {
                if g.garbage.iter().any(|s| ((*s as usize * msgs.len()) >> 16) == i) {
                    bytes.extend_from_slice(b"\x00garbage\xff\xfe");
                }
                m.to_write(&mut bytes).unwrap();
            }
            files.push(FileData { name: format!("g{}_{}.dlt", gi, pi), msgs, bytes });
        }
    }
    files
}

/// the unfiltered merged sequence as documented: files with the same ECU set are chained by first reception time,
/// groups are merged by reception time (ties: ecu, timestamp, counter, payload)
pub fn merged(files: &[&FileData]) -> Vec<DltMessage> {
    let mut groups: Vec<(std::collections::BTreeSet<u32>, Vec<&FileData>)> = vec![];
    for f in files {
        let set: std::collections::BTreeSet<u32> = f.msgs.iter().map(|m| m.ecu.as_u32le()).collect();
        match groups.iter_mut().find(|g| g.0 == set) {
            Some(g) => g.1.push(f),
            None => groups.push((set, vec![f])),
        }
    }
    let chains: Vec<Vec<&DltMessage>> = groups
        .iter_mut()
        .map(|(_, fs)| {
            fs.sort_by_key(|f| f.msgs[0].reception_time_us); // stable
            fs.iter().flat_map(|f| f.msgs.iter()).collect()
        })
        .collect();
    let mut pos = vec![0usize; chains.len()];
    let mut out = vec![];
    loop {
        let mut best: Option<usize> = None;
        for i in 0..chains.len() {
            if pos[i] < chains[i].len() {
                let key = |m: &DltMessage| (m.reception_time_us, m.ecu.as_u32le(), m.timestamp_dms, m.mcnt(), m.payload.clone());
                best = match best {
                    None => Some(i),
                    Some(b) => {
                        if key(chains[i][pos[i]]) < key(chains[b][pos[b]]) {
                            Some(i)
                        } else {
                            Some(b)
                        }
                    }
                };
            }
        }
        match best {
            Some(b) => {
                let mut m = chains[b][pos[b]].clone();
                m.index = out.len() as u32;
                out.push(m);
                pos[b] += 1;
            }
            None => break,
        }
    }
    out
}

/// lifecycle ids of clean traces in a fresh process: 1..k in order of first appearance of each boot
pub fn assign_lifecycles(msgs: &mut [DltMessage]) -> usize {
    let mut seen: Vec<(u32, u64)> = vec![];
    for m in msgs.iter_mut() {
        let key = (m.ecu.as_u32le(), m.reception_time_us - m.timestamp_us());
        let id = match seen.iter().position(|k| *k == key) {
            Some(p) => p + 1,
            None => {
                seen.push(key);
                seen.len()
            }
        };
        m.lifecycle = id as u32;
    }
    seen.len()
}

pub struct Sandbox {
    pub dir: PathBuf,
}
static CASE_NR: std::sync::atomic::AtomicUsize = std::sync::atomic::AtomicUsize::new(0);
impl Sandbox {
    pub fn new(tag: &str) -> Sandbox {
        let dir = work_dir().join(format!("{}_{}_{}", tag, std::process::id(), CASE_NR.fetch_add(1, std::sync::atomic::Ordering::Relaxed)));
        let _ = std::fs::remove_dir_all(&dir);
        std::fs::create_dir_all(&dir).unwrap();
        Sandbox { dir }
    }
    pub fn path(&self, n: &str) -> PathBuf {
        self.dir.join(n)
    }
}
impl Drop for Sandbox {
    fn drop(&mut self) {
        let _ = std::fs::remove_dir_all(&self.dir);
    }
}

pub fn run_convert(args: &[String]) -> Result<(String, String), String> {
    run_convert_env(args, &[])
}

/// runs `adlt convert`; output through files (no pipe can fill up), bounded wait: a convert that does not end
/// within 120 s on these inputs (a few hundred messages) hangs and is reported as failure of the case
pub fn run_convert_env(args: &[String], envs: &[(&str, String)]) -> Result<(String, String), String> {
    static NR: std::sync::atomic::AtomicUsize = std::sync::atomic::AtomicUsize::new(0);
    let base = crate::engine::tmp_dir().join(format!("convert_{}_{}", std::process::id(), NR.fetch_add(1, std::sync::atomic::Ordering::Relaxed)));
    let (po, pe) = (base.with_extension("out"), base.with_extension("err"));
    let fo = std::fs::File::create(&po).map_err(|e| e.to_string())?;
    let fe = std::fs::File::create(&pe).map_err(|e| e.to_string())?;
    let mut cmd = std::process::Command::new(crate::engine::adlt_bin());
    cmd.arg("convert").args(args).env("TZ", "UTC").env("RAYON_NUM_THREADS", "1").env_remove("ADLT_VERIF_CHANNEL_CAP").stdin(std::process::Stdio::null()).stdout(fo).stderr(fe);
    for (k, v) in envs {
        cmd.env(k, v);
    }
    let mut child = cmd.spawn().map_err(|e| format!("cannot run {}: {}", crate::engine::adlt_bin().display(), e))?;
    let end = std::time::Instant::now() + std::time::Duration::from_secs(120);
    let status = loop {
        match child.try_wait() {
            Ok(Some(st)) => break Some(st),
            Ok(None) => {
                if std::time::Instant::now() > end {
                    let _ = child.kill();
                    let _ = child.wait();
                    break None;
                }
                std::thread::sleep(std::time::Duration::from_millis(2));
            }
            Err(e) => return Err(format!("wait failed: {}", e)),
        }
    };
    let stdout = String::from_utf8_lossy(&std::fs::read(&po).unwrap_or_default()).into_owned();
    let stderr = String::from_utf8_lossy(&std::fs::read(&pe).unwrap_or_default()).into_owned();
    let _ = std::fs::remove_file(&po);
    let _ = std::fs::remove_file(&pe);
    let status = match status {
        Some(s) => s,
        None => return Err(format!("adlt convert {:?} (env {:?}) did not end within 120 s; stderr: {}", args, envs, stderr.chars().take(600).collect::<String>())),
    };
    if !status.success() {
        return Err(format!("adlt convert {:?} exited with {:?}; stderr: {}", args, status, stderr.chars().take(600).collect::<String>()));
    }
    if stderr.contains("panicked") {
        return Err(format!("adlt convert {:?} panicked: {}", args, stderr.chars().take(600).collect::<String>()));
    }
    Ok((stdout, stderr))
}

fn expected_line(m: &DltMessage, style: u8) -> String {
    let mut b = vec![];
    m.header_as_text_to_write(&mut b).unwrap();
    match style {
        1 => {
            write!(b, " [{}]", m.payload_as_text().unwrap()).unwrap();
        }
        2 => {
            b.extend_from_slice(b" [");
            adlt::utils::buf_as_hex_to_io_write(&mut b, &m.payload).unwrap();
            b.push(b']');
        }
        _ => {}
    }
    String::from_utf8_lossy(&b).into_owned()
}

pub fn parse_listing(stdout: &str) -> Option<Vec<(u32, String, u32)>> {
    // "have N lifecycles:" followed by "LC#  1: ECUA 2020/.. - .. #      12 ..."
    let mut lines = stdout.lines().skip_while(|l| !(l.starts_with("have ") && l.ends_with(" lifecycles:")));
    let head = lines.next()?;
    let n: usize = head.split(' ').nth(1)?.parse().ok()?;
    let mut out = vec![];
    for l in lines.take(n) {
        let l = l.strip_prefix("LC#")?;
        let (id, rest) = l.split_once(':')?;
        let ecu = rest.trim_start().split(' ').next()?.to_string();
        let nr = rest.split('#').nth(1)?.trim().split(' ').next()?.parse().ok()?;
        out.push((id.trim().parse().ok()?, ecu, nr));
    }
    if out.len() == n {
        Some(out)
    } else {
        None
    }
}

fn check(c: &Case, rep: &mut Rep) -> Result<(), String> {
    let o = &c.opts;
    let files = build_files(&c.groups, o.tie_first);
    if files.is_empty() {
        return Ok(());
    }
    let sb = Sandbox::new("c14");
    for f in &files {
        std::fs::write(sb.path(&f.name), &f.bytes).map_err(|e| e.to_string())?;
    }
    let tie = o.tie_first && files.iter().any(|f| f.name.ends_with("_1.dlt"));
    let frefs: Vec<&FileData> = files.iter().collect();
    let mut all = merged(&frefs);
    let n_lcs = assign_lifecycles(&mut all);
    let n = all.len();
    rep.label_if(files.len() >= 2, "ge2_files");
    rep.label_if(tie, "equal_first_reception_time_same_ecus");
    // cross group reception time ties in the merged stream
    rep.label_if(all.windows(2).any(|w| w[0].reception_time_us == w[1].reception_time_us && w[0].ecu != w[1].ecu), "cross_group_tie");

    // --- options
    let mut args: Vec<String> = vec![];
    let mut active = 0;
    let window = if let Some((a, b)) = o.window {
        let (bi, ei) = if a % 8 == 0 {
            // arbitrary incl. inverted / outside
            ((a as usize * (n + 2)) >> 16, (b as usize * (n + 2)) >> 16)
        } else {
            let bi = (a as usize * n.max(1)) >> 16;
            (bi, bi + ((b as usize * (n + 2 - bi)) >> 16))
        };
        args.push("-b".into());
        args.push(bi.to_string());
        args.push("-e".into());
        args.push(ei.to_string());
        active += 1;
        rep.label_if(bi > ei, "inverted_window");
        Some((bi as u32, ei as u32))
    } else {
        None
    };
    let use_lcs = !tie;
    let lcs: Option<Vec<u32>> = match (&o.lcs, use_lcs) {
        (Some(sel), true) if !sel.is_empty() => {
            let ids: Vec<u32> = sel.iter().map(|s| 1 + ((*s as usize * (n_lcs + 1)) >> 16) as u32).collect();
            args.push(format!("--lcs={}", ids.iter().map(|x| x.to_string()).collect::<Vec<_>>().join(",")));
            active += 1;
            rep.label_if(ids.iter().any(|i| *i as usize > n_lcs), "unknown_lifecycle_id");
            Some(ids)
        }
        _ => None,
    };
    let mut set: Vec<AF> = vec![];
    match o.ffile % 3 {
        1 if !o.ffilters.is_empty() => {
            let fs: Vec<AF> = o.ffilters.iter().map(dlf_normalise_pub).collect();
            std::fs::write(sb.path("filters.dlf"), to_dlf(&fs)).map_err(|e| e.to_string())?;
            args.push("-f".into());
            args.push(sb.path("filters.dlf").to_string_lossy().into_owned());
            set.extend(fs);
            active += 1;
            rep.label("filter_file_dlf");
        }
        2 if !o.conv_pairs.is_empty() => {
            let fs: Vec<AF> = o.conv_pairs.iter().map(|(a, c)| lit_af(None, Some(TRACE_APIDS[*a as usize % 4]), Some(TRACE_CTIDS[*c as usize % 4]))).collect();
            let text: String = fs.iter().map(to_convert_format).collect();
            std::fs::write(sb.path("filters.txt"), text).map_err(|e| e.to_string())?;
            args.push("-f".into());
            args.push(sb.path("filters.txt").to_string_lossy().into_owned());
            set.extend(fs);
            active += 1;
            rep.label("filter_file_convert_format");
        }
        _ => {}
    }
    let eacs: Vec<&AF> = o.eac.iter().filter(|f| eac_expressible(f)).collect();
    if !eacs.is_empty() {
        args.push(format!("--eac={}", eacs.iter().map(|f| to_eac(f)).collect::<Vec<_>>().join(",")));
        set.extend(eacs.iter().map(|f| (*f).clone()));
        active += 1;
        rep.label("eac");
        rep.label_if(eacs.iter().any(|f| [&f.ecu, &f.apid, &f.ctid].into_iter().flatten().any(|c| matches!(c, IdCrit::Re(_)))), "eac_regex");
    }
    let sort = o.sort && !tie;
    if sort {
        args.push("--sort".into());
        active += 1;
    }
    let style = o.style % 4;
    match style {
        1 => args.push("-a".into()),
        2 => args.push("-x".into()),
        3 => args.push("-s".into()),
        _ => {}
    }
    let out_file = sb.path("out.dlt");
    let want_out = o.out || style == 0;
    if want_out {
        args.push("-o".into());
        args.push(out_file.to_string_lossy().into_owned());
    }
    // --- expected selection
    let sel: Vec<&DltMessage> = all
        .iter()
        .filter(|m| {
            window.map_or(true, |(b, e)| m.index >= b && m.index <= e)
                && lcs.as_ref().map_or(true, |l| l.contains(&m.lifecycle))
                && (set.is_empty() || crate::props::c14::keep_view(&set, &MView::of(m)))
        })
        .collect();
    rep.label_if(sel.is_empty(), "empty_selection");
    rep.label_if(sel.len() == n, "everything_selected");
    let cross_tie = all.windows(2).any(|w| w[0].reception_time_us == w[1].reception_time_us && w[0].ecu != w[1].ecu);
    // messages of different files with the same reception time: their relative order is the implementation's choice
    // (it only must not depend on the order of the file arguments). Where indices or lifecycle ids - which follow
    // that order - select, the selection itself is not determined by the statement.
    let cuts = |i: usize| i > 0 && i < n && all[i - 1].reception_time_us == all[i].reception_time_us && all[i - 1].ecu != all[i].ecu;
    let selection_ambiguous = cross_tie && (window.map_or(false, |(b, e)| cuts(b as usize) || cuts(e as usize + 1)) || lcs.is_some());
    rep.label_if(selection_ambiguous, "selection_depends_on_tie_order");
    rep.nontrivial = (active >= 2 && !sel.is_empty() && sel.len() < n) || (cross_tie && files.len() >= 3 && !sel.is_empty());

    let name_args = |order: &[usize]| -> Vec<String> { order.iter().map(|i| sb.path(&files[*i].name).to_string_lossy().into_owned()).collect() };
    let order: Vec<usize> = (0..files.len()).collect();
    let mut a1 = args.clone();
    a1.extend(name_args(&order));
    // small channels between the stages of convert: a full channel may delay but never change the result
    let envs: Vec<(&str, String)> = match o.chan_cap % 4 {
        0 => vec![],
        k => vec![("ADLT_VERIF_CHANNEL_CAP", [1usize, 4, 64][k as usize - 1].to_string())],
    };
    rep.label_if(!envs.is_empty(), "small_channels");
    let (stdout, _) = run_convert_env(&a1, &envs)?;

    let exp_lines: Vec<String> = if style == 0 { vec![] } else { sel.iter().map(|m| expected_line(m, style)).collect() };
    let got_lines: Vec<String> = if style == 0 { vec![] } else { stdout.lines().map(|l| l.to_string()).collect() };
    let sort_precondition = all.windows(2).all(|w| w[0].reception_time_us <= w[1].reception_time_us) && c.groups.iter().all(|g| g.ecus.iter().all(|e| e.boots.iter().all(|b| b.delay_us <= 20 * S)));
    if style != 0 {
        if sort {
            let mut g = got_lines.clone();
            let mut e = exp_lines.clone();
            g.sort();
            e.sort();
            ensure!(g == e, "convert {:?}: printed messages are not the selected ones (as multiset): got {} lines expected {}", args, got_lines.len(), exp_lines.len());
            if sort_precondition {
                rep.label("sort_order_asserted");
                // non-decreasing calculated time
                // clean traces: lifecycle start + timestamp == reception time for every message
                let calc = |idx: u32| -> u64 { all[idx as usize].reception_time_us };
                let idxs: Vec<u32> = got_lines.iter().filter_map(|l| l.split(' ').next().and_then(|s| s.parse().ok())).collect();
                for w in idxs.windows(2) {
                    let (ca, cb) = (calc(w[0]), calc(w[1]));
                    ensure!(ca < cb || (ca == cb && w[0] < w[1]), "--sort: message {} (time {}) printed before message {} (time {})", w[0], ca, w[1], cb);
                }
            }
        } else if selection_ambiguous {
            // only what holds for every tie order: each printed line is an input message, none twice
            let mut g: Vec<&str> = got_lines.iter().map(|l| l.split_once(' ').map_or("", |x| x.1)).collect();
            let allowed: Vec<String> = all.iter().map(|m| expected_line(m, style)).collect();
            let mut a: Vec<&str> = allowed.iter().map(|l| l.split_once(' ').map_or("", |x| x.1)).collect();
            g.sort();
            a.sort();
            let mut ai = 0;
            for l in &g {
                while ai < a.len() && a[ai] < *l {
                    ai += 1;
                }
                ensure!(ai < a.len() && a[ai] == *l, "convert {:?}: printed line {:?} is no input message (or printed more often than it occurs)", args, l);
                ai += 1;
            }
        } else if cross_tie {
            // same messages; order compared bucket-wise (index column left out: it follows the tie order)
            let strip = |v: &Vec<String>| -> Vec<String> { let mut x: Vec<String> = v.iter().map(|l| l.split_once(' ').map_or(String::new(), |x| x.1.to_string())).collect(); x.sort(); x };
            ensure!(strip(&got_lines) == strip(&exp_lines), "convert {:?}: printed messages are not the selected ones (as multiset, index column ignored): got {} lines expected {}", args, got_lines.len(), exp_lines.len());
            let times = |v: &Vec<String>| -> Vec<String> { v.iter().map(|l| l.split(' ').skip(1).take(2).collect::<Vec<_>>().join(" ")).collect() };
            ensure!(times(&got_lines) == times(&exp_lines), "convert {:?}: printed messages are not in reception time order", args);
        } else {
            if got_lines != exp_lines {
                let first = got_lines.iter().zip(exp_lines.iter()).position(|(a, b)| a != b).unwrap_or(std::cmp::min(got_lines.len(), exp_lines.len()));
                return Err(format!(
                    "convert {:?}: printed messages differ from the selection: got {} lines, expected {}; first difference at line {}: got {:?} expected {:?}",
                    &args,
                    got_lines.len(),
                    exp_lines.len(),
                    first,
                    got_lines.get(first),
                    exp_lines.get(first)
                ));
            }
        }
    } else {
        // lifecycle listing of the unfiltered input
        if !tie {
            let listing = parse_listing(&stdout).ok_or(format!("cannot parse lifecycle listing: {:?}", stdout.chars().take(300).collect::<String>()))?;
            ensure_eq!(listing.len(), n_lcs, "number of lifecycles listed by convert");
            for (id, _ecu, nr) in &listing {
                let cnt = all.iter().filter(|m| m.lifecycle == *id).count() as u32;
                ensure_eq!(*nr, cnt, "message count of lifecycle {} in the listing", id);
            }
        }
    }
    // -o file
    if want_out {
        let data = std::fs::read(&out_file).map_err(|e| format!("-o file not written: {}", e))?;
        let outm: Vec<DltMessage> = DltMessageIterator::new(0, std::io::Cursor::new(&data[..])).collect();
        if !selection_ambiguous {
            ensure_eq!(outm.len(), sel.len(), "convert {:?}: number of messages in the -o file vs selection", args);
        }
        let mut a: Vec<&DltMessage> = if selection_ambiguous { vec![] } else { outm.iter().collect() };
        let mut b: Vec<&DltMessage> = if selection_ambiguous { vec![] } else { sel.clone() };
        if sort || cross_tie {
            let k = |m: &&DltMessage| (m.reception_time_us, m.ecu.as_u32le(), m.timestamp_dms, m.mcnt(), m.payload.clone());
            a.sort_by_key(k);
            b.sort_by_key(k);
        }
        for (x, y) in a.iter().zip(b.iter()) {
            same_content(x, y).map_err(|e| format!("-o file: message differs from the selected input message {}: {}", y.index, e))?;
        }
    }
    // permuted file arguments
    if files.len() >= 2 {
        let mut firsts: Vec<u64> = files.iter().map(|f| f.msgs[0].reception_time_us).collect();
        firsts.sort();
        firsts.dedup();
        if firsts.len() == files.len() {
            let mut perm = order.clone();
            let r = 1 + (o.permute as usize % (files.len() - 1).max(1));
            perm.rotate_left(r % files.len());
            if o.permute % 2 == 1 {
                perm.reverse();
            }
            if perm != order {
                rep.label("permuted_arguments");
                let first_out = if want_out { std::fs::read(&out_file).ok() } else { None };
                let mut a2 = args.clone();
                a2.extend(name_args(&perm));
                let (stdout2, _) = run_convert_env(&a2, &envs)?;
                ensure!(stdout2 == stdout, "naming the input files in a different order ({:?}) changes the output", perm);
                if want_out {
                    ensure!(std::fs::read(&out_file).ok() == first_out, "naming the input files in a different order changes the -o file");
                }
            }
        }
    }
    Ok(())
}

pub fn keep_view(set: &[AF], m: &MView) -> bool {
    let en = |k: u8| set.iter().filter(move |f| f.enabled && f.kind == k);
    let pos_ok = en(0).next().is_none() || en(0).any(|f| reference_matches_view(f, m).matches);
    let neg_hit = en(1).any(|f| reference_matches_view(f, m).matches);
    pos_ok && !neg_hit
}

pub const TRACE_APIDS: [&str; 4] = ["APA", "APB", "SYS", "AB"];
pub const TRACE_CTIDS: [&str; 4] = ["CTX", "CTY", "JOUR", "C"];

pub fn lit_af(ecu: Option<&str>, apid: Option<&str>, ctid: Option<&str>) -> AF {
    AF {
        kind: 0,
        enabled: true,
        negated: false,
        ecu: ecu.map(|s| IdCrit::Lit(s.to_string())),
        apid: apid.map(|s| IdCrit::Lit(s.to_string())),
        ctid: ctid.map(|s| IdCrit::Lit(s.to_string())),
        mtype: None,
        level_min: None,
        level_max: None,
        payload: None,
        ignore_case: false,
        lifecycles: None,
        explicit_regex_flags: false,
    }
}

pub fn dlf_normalise_pub(f: &AF) -> AF {
    let mut f = f.clone();
    f.negated = false;
    f.lifecycles = None;
    if matches!(f.ecu, Some(IdCrit::Re(_))) {
        f.ecu = None;
    }
    if f.mtype.is_some() {
        f.mtype = Some(MType::Mstp(3));
    }
    if f.payload.is_none() {
        f.ignore_case = false;
    }
    f
}

/// filters over the id universe of the generated traces
pub fn trace_af() -> impl Strategy<Value = AF> {
    let lit = |v: Vec<&'static str>| prop::sample::select(v).prop_map(|s| IdCrit::Lit(s.to_string()));
    let re = || {
        prop::collection::vec(
            (
                any::<bool>(),
                prop::collection::vec(
                    prop_oneof![
                        5 => prop::sample::select(vec![b'E', b'C', b'U', b'A', b'B', b'P', b'S', b'Y', b'T', b'X', b'J', b'O']).prop_map(Atom::B),
                        1 => Just(Atom::Any),
                        1 => prop::sample::select(vec![vec![b'A', b'B'], vec![b'X', b'Y'], vec![b'C', b'D', b'E']]).prop_map(Atom::OneOf),
                    ],
                    1..4,
                ),
            ),
            1..3,
        )
        .prop_map(|alts| IdCrit::Re(IdRe { alts }))
    };
    (
        (prop_oneof![6 => Just(0u8), 2 => Just(1u8), 1 => Just(2u8)], prop::bool::weighted(0.9)),
        prop::option::weighted(0.4, prop_oneof![3 => lit(vec!["ECUA", "ECUB", "ECUC", "ECUD", "ECU"]), 2 => re()]),
        prop::option::weighted(0.5, prop_oneof![3 => lit(vec!["APA", "APB", "SYS", "AB", "APAX"]), 2 => re()]),
        prop::option::weighted(0.4, prop_oneof![3 => lit(vec!["CTX", "CTY", "JOUR", "C"]), 2 => re()]),
        (prop::option::weighted(0.2, 1u8..7), prop::option::weighted(0.2, 1u8..7)),
        prop::option::weighted(0.25, prop_oneof![
            prop::sample::select(vec!["alpha", "Error", "error", "low", "x", "beta"]).prop_map(|s| PayCrit::Lit(s.to_string())),
            prop::sample::select(vec!["^x$", "[0-9]+", "alpha|GAMMA", "err.r", "^A"]).prop_map(|s| PayCrit::Re(s.to_string())),
        ]),
        prop::bool::weighted(0.3),
        prop::bool::weighted(0.15),
        any::<bool>(),
    )
        .prop_map(|((kind, enabled), ecu, apid, ctid, (level_min, level_max), payload, ic, ctrl, explicit_regex_flags)| AF {
            kind,
            enabled,
            negated: false,
            ecu,
            apid,
            ctid,
            mtype: if ctrl { Some(MType::Mstp(3)) } else { None },
            level_min,
            level_max,
            ignore_case: ic && payload.is_some(),
            payload,
            lifecycles: None,
            explicit_regex_flags,
        })
}

/// filters with one or two criteria (so that selections are rarely empty)
pub fn simple_trace_af() -> impl Strategy<Value = AF> {
    (trace_af(), 0u8..6, prop_oneof![5 => Just(0u8), 2 => Just(1u8)]).prop_map(|(mut f, keep, kind)| {
        f.kind = kind;
        f.enabled = true;
        let (e, a, c) = (f.ecu.take(), f.apid.take(), f.ctid.take());
        let (lmin, pay) = (f.level_min.take(), f.payload.take());
        f.level_max = None;
        f.mtype = None;
        f.ignore_case = false;
        match keep {
            0 => f.ecu = e.or(Some(IdCrit::Lit("ECUA".into()))),
            1 => f.apid = a.or(Some(IdCrit::Lit("APA".into()))),
            2 => f.ctid = c.or(Some(IdCrit::Lit("CTX".into()))),
            3 => {
                f.apid = a.or(Some(IdCrit::Lit("APB".into())));
                f.ctid = c;
            }
            4 => f.level_min = lmin.or(Some(3)),
            _ => f.payload = pay.or(Some(PayCrit::Lit("a".into()))),
        }
        f
    })
}
pub fn eac_af() -> impl Strategy<Value = AF> {
    simple_trace_af().prop_map(|mut f| {
        f.kind = 0;
        f.level_min = None;
        f.payload = None;
        if f.ecu.is_none() && f.apid.is_none() && f.ctid.is_none() {
            f.ecu = Some(IdCrit::Lit("ECUA".into()));
        }
        f
    })
}

pub fn group_strategy(max_boots: usize, max_msgs: usize) -> impl Strategy<Value = Group> {
    (
        prop_oneof![3 => Just(1usize), 1 => Just(2usize)],
        any::<bool>(),
    )
        .prop_flat_map(move |(n, sorted_only)| {
            let ecus: Vec<_> = (0..n).map(|e| ecu_trace(e as u8, max_boots, max_msgs, sorted_only)).collect();
            (ecus, prop::collection::vec(any::<u16>(), 0..16), prop::option::weighted(0.4, any::<u16>()), prop::collection::vec(any::<u16>(), 0..3))
        })
        .prop_map(|(ecus, choices, split, garbage)| Group { ecus, choices, split, garbage })
}

/// 3..4 single-ECU groups with millisecond grained times => many reception time ties across groups, distinct first times
fn tie_case() -> impl Strategy<Value = Case> {
    (
        prop::collection::vec(prop::collection::vec((1u8..12, 0u8..4, 0u8..4, 0u8..8), 3..12), 3..5),
        prop::option::weighted(0.5, (any::<u16>(), any::<u16>())),
        1u8..4,
        any::<u16>(),
    )
        .prop_map(|(gs, window, style, permute)| {
            let groups = gs
                .into_iter()
                .enumerate()
                .map(|(gi, steps)| {
                    let mut t = 0u32;
                    let mut msgs = vec![CMsg { ts_dms: 0, apid: 0, ctid: 0, word: gi as u8, level: 4 }];
                    for (d, apid, ctid, word) in steps {
                        t += (d as u32 % 3) * 10; // 0, 1 or 2 ms later
                        msgs.push(CMsg { ts_dms: t, apid, ctid, word, level: 4 });
                    }
                    Group { ecus: vec![EcuTrace { ecu: 0, start_off_us: gi as u64 * 1000, boots: vec![Boot { off_us: 1000, delay_us: 0, msgs }] }], choices: vec![], split: None, garbage: vec![] }
                })
                .collect();
            Case { groups, opts: Opts { window, lcs: None, eac: vec![], ffile: 0, ffilters: vec![], conv_pairs: vec![], sort: false, style, out: true, permute, tie_first: false, chan_cap: (permute % 4) as u8 } }
        })
}

/// files with different ECU sets that share one ECU; the shared ECU's messages tie in reception time, timestamp,
/// counter and payload and differ only in the extended header: the output must not depend on the argument order
fn same_ecu_ties(v: &(u8, Vec<(u8, u8)>, u16), rep: &mut Rep) -> Result<(), String> {
    let (nfiles, extra, perm) = v;
    let nfiles = 3 + (*nfiles as usize % 3); // 3..5 files
    let sb = Sandbox::new("c14tie");
    let mk = |ecu: &[u8; 4], rt: u64, ts: u32, mcnt: u8, apid: &[u8; 4], text: &str| -> DltMessage {
        DltMessage {
            index: 0,
            reception_time_us: rt,
            ecu: DltChar4::from_buf(ecu),
            timestamp_dms: ts,
            standard_header: DltStandardHeader { htyp: 0x31, mcnt, len: 0 },
            extended_header: Some(DltExtendedHeader { verb_mstp_mtin: 0x41, noar: 1, apid: DltChar4::from_buf(apid), ctid: DltChar4::from_buf(b"CTX\0") }),
            payload: crate::model::trace::string_payload(text),
            payload_text: None,
            lifecycle: 0,
        }
    };
    let mut names = vec![];
    for gi in 0..nfiles {
        let own = [b'E', b'C', b'U', b'0' + gi as u8];
        let mut msgs = vec![mk(&own, BASE + gi as u64 * S, 10_000, 0, b"OWN\0", "first")];
        // the shared ECU: same time, timestamp, counter and payload in every file, different application id
        for (k, (cnt, word)) in extra.iter().enumerate() {
            msgs.push(mk(b"SHRD", BASE + 1000 * S + k as u64 * S, 20_000 + k as u32 * 10_000, *cnt, &[b'A', b'P', b'0' + gi as u8, 0], ["tie", "same", "x"][*word as usize % 3]));
        }
        let mut b = vec![];
        for m in &msgs {
            m.to_write(&mut b).map_err(|e| e.to_string())?;
        }
        let name = sb.path(&format!("f{}.dlt", gi)).to_string_lossy().into_owned();
        std::fs::write(&name, b).map_err(|e| e.to_string())?;
        names.push(name);
    }
    let run = |order: &[usize]| -> Result<String, String> {
        let mut a = vec!["-a".to_string()];
        a.extend(order.iter().map(|i| names[*i].clone()));
        run_convert_env(&a, &[]).map(|x| x.0)
    };
    let base: Vec<usize> = (0..nfiles).collect();
    let reference = run(&base)?;
    ensure_eq!(reference.lines().count(), nfiles * (1 + extra.len()), "number of printed messages");
    let mut p2 = base.clone();
    p2.rotate_left(1 + *perm as usize % (nfiles - 1));
    if perm % 2 == 1 {
        p2.reverse();
    }
    let mut p3 = base.clone();
    p3.swap(0, nfiles - 1);
    p3.swap(1, (*perm as usize / 2) % nfiles);
    for p in [p2, p3] {
        let out = run(&p)?;
        ensure!(out == reference, "naming the input files in the order {:?} instead of {:?} changes the output (first messages of the files have distinct reception times)", p, base);
    }
    rep.label_if(nfiles >= 4, "ge4_files");
    rep.nontrivial = !extra.is_empty();
    Ok(())
}

pub fn def(tier: Tier) -> PropertyDef {
    let opts = (
        (prop::option::weighted(0.5, (any::<u16>(), any::<u16>())), prop::option::weighted(0.4, prop::collection::vec(any::<u16>(), 1..3))),
        prop::collection::vec(eac_af(), 0..3),
        (0u8..3, prop::collection::vec(prop_oneof![3 => simple_trace_af().boxed(), 1 => trace_af().boxed()], 1..4), prop::collection::vec((0u8..4, 0u8..4), 1..3)),
        (prop::bool::weighted(0.3), 0u8..4, any::<bool>(), any::<u16>(), prop::bool::weighted(0.12), prop_oneof![3 => Just(0u8), 1 => Just(1u8), 1 => Just(2u8), 1 => Just(3u8)]),
    )
        .prop_map(|((window, lcs), eac, (ffile, ffilters, conv_pairs), (sort, style, out, permute, tie_first, chan_cap))| Opts { window, lcs, eac, ffile, ffilters, conv_pairs, sort, style, out, permute, tie_first, chan_cap });
    let case = (prop::collection::vec(group_strategy(3, 12), 1..4), opts).prop_map(|(groups, opts)| Case { groups, opts });
    PropertyDef {
        id: "C14",
        rule: "1..3 ECU groups (1..2 ECUs each, clean traces, single-ECU groups optionally split into two files, optional garbage between messages, optional variant with equal first reception time for two files of one ECU) written as DLT files; options -b/-e (inside, outside, inverted), --lcs (existing/unknown ids), --eac (literal/regex expressions), -f (DLF or dlt-convert format), --sort, style -a/-x/-s/none, -o; the adlt binary built from the working tree is run and its stdout lines and the re-read -o file are compared with the harness' own merge (same-ECU-set files chained by first reception time, groups merged by reception time with the content tie-break) + window + lifecycle set + filter set rules; lifecycle listing vs ground truth; permuted file arguments give identical output when first reception times are distinct. Non-trivial: >=2 selection options and a selection that is neither empty nor everything.",
        assumptions: vec![
            "-f and --eac filters form one filter set (positive OR, negative veto); the check does not demand an AND between the two options",
            "lifecycle ids of clean traces in a fresh process are 1..k in order of first appearance (cross-checked against the listing)",
            "with --sort the order is asserted only when the C10 precondition holds for convert's fixed parameters (non-decreasing reception times, delays <= 20 s); otherwise multiset",
            "expected text lines are rendered with the library's own header/payload text functions (the property is about selection, not formatting)",
        ],
        subs: vec![sub("convert_options", tier.pick(700, 20_000), case, check)
            .rates(&[("ge2_files", 0.4), ("eac", 0.25), ("filter_file_dlf", 0.15), ("filter_file_convert_format", 0.1), ("permuted_arguments", 0.2), ("equal_first_reception_time_same_ecus", 0.01)])
            .shrink_iters(150)
            .slow()
            .boxed(),
            sub("same_ecu_ties", tier.pick(120, 3_000), (any::<u8>(), prop::collection::vec((0u8..2, 0u8..3), 1..4), any::<u16>()), same_ecu_ties).rates(&[("ge4_files", 0.4)]).shrink_iters(40).slow().boxed(),
            sub("cross_group_ties", tier.pick(250, 6_000), tie_case(), check).rates(&[("cross_group_tie", 0.8), ("permuted_arguments", 0.8), ("small_channels", 0.3)]).shrink_iters(100).slow().boxed(),
        ],
        workers: 16,
    }
}
