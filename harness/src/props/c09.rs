//! C09 Merging message sources loses nothing and keeps per-source order
use crate::engine::*;
use crate::{ensure, ensure_eq};
use adlt::dlt::*;
use adlt::utils::sorting_multi_readeriterator::*;
use proptest::prelude::*;

/// a source: (time mode, deltas)
type Src = (u8, Vec<u64>);
type Case = (Vec<Src>, u32, u8, u16);

/// the (source, position) tag travels in the lifecycle field, which the iterators do not look at; `twins`: apart
/// from the tag all messages with the same reception time are identical (the same file given twice, overlapping recordings)
fn msg(src: u16, pos: u16, rt: u64, idx: u32, twins: bool) -> DltMessage {
    DltMessage {
        index: idx,
        reception_time_us: rt,
        ecu: DltChar4::from_buf(&[b'E', if twins { b'0' } else { b'0' + (src % 3) as u8 }, 0, 0]),
        timestamp_dms: if twins { 7 } else { pos as u32 },
        standard_header: DltStandardHeader { htyp: 0x21, mcnt: if twins { 1 } else { pos as u8 }, len: 0 },
        extended_header: Some(DltExtendedHeader { verb_mstp_mtin: 0x41, noar: 0, apid: DltChar4::from_buf(b"APID"), ctid: DltChar4::from_buf(b"CTID") }),
        payload: if twins { vec![1, 2, 3, 4] } else { vec![(src >> 8) as u8, src as u8, (pos >> 8) as u8, pos as u8] },
        payload_text: if pos % 5 == 0 { Some("text".to_string()) } else { None },
        lifecycle: ((src as u32) << 16) | pos as u32,
    }
}
fn tag(m: &DltMessage) -> (usize, i64) {
    ((m.lifecycle >> 16) as usize, (m.lifecycle & 0xffff) as i64)
}

fn lists(srcs: &[Src], empties_at: u16, start: u32, twins: bool) -> Vec<Vec<DltMessage>> {
    // optionally insert a long run of empty sources (recursion per empty source in SequentialMultiIterator)
    let mut out: Vec<Vec<DltMessage>> = vec![];
    for (i, (mode, deltas)) in srcs.iter().enumerate() {
        if i == 1 && empties_at > 0 {
            for _ in 0..empties_at {
                out.push(vec![]);
            }
        }
        let s = out.len() as u16;
        let mut t = 1000u64;
        out.push(
            deltas
                .iter()
                .enumerate()
                .map(|(p, d)| {
                    match mode {
                        0 => t += d,                           // non decreasing
                        1 => t = 1000,                         // all equal (ties across sources)
                        2 => t = 1000 + (d * 7919 % 50),       // unordered
                        _ => t += d % 2,                       // many ties
                    };
                    // single source variant: callers number the source from the start index
                    msg(s, p as u16, t, start.wrapping_add(p as u32), twins)
                })
                .collect(),
        );
    }
    out
}

fn check(v: &Case, rep: &mut Rep) -> Result<(), String> {
    let (srcs, start, variant, empties) = v;
    let twins = variant & 4 == 4;
    // every index has to be representable: a start index too close to the end is moved so that the last message gets u32::MAX
    let n_msgs: u32 = srcs.iter().map(|s| s.1.len() as u32).sum();
    let start = &(if n_msgs > 0 && start.checked_add(n_msgs - 1).is_none() { u32::MAX - (n_msgs - 1) } else { *start });
    rep.label_if(n_msgs > 0 && *start == u32::MAX - (n_msgs - 1), "last_index_is_u32_max");
    let lists = lists(srcs, *empties, *start, twins);
    let all_sorted = lists.iter().all(|l| l.windows(2).all(|w| w[0].reception_time_us <= w[1].reception_time_us));
    rep.label_if(twins, "identical_messages_across_sources");
    let total: usize = lists.iter().map(|l| l.len()).sum();
    let nonempty = lists.iter().filter(|l| !l.is_empty()).count();
    // ties across sources?
    let mut times: std::collections::HashMap<u64, std::collections::HashSet<usize>> = Default::default();
    for (i, l) in lists.iter().enumerate() {
        for m in l {
            times.entry(m.reception_time_us).or_default().insert(i);
        }
    }
    let cross_tie = times.values().any(|s| s.len() > 1);
    let empty_between = {
        let first = lists.iter().position(|l| !l.is_empty());
        let last = lists.iter().rposition(|l| !l.is_empty());
        match (first, last) {
            (Some(a), Some(b)) => lists[a..=b].iter().any(|l| l.is_empty()),
            _ => false,
        }
    };
    rep.label_if(cross_tie, "cross_source_tie");
    rep.label_if(empty_between, "empty_source_between");
    rep.label_if(lists.len() == 1, "single_source");
    rep.label_if(*empties > 100, "many_empty_sources");
    rep.label_if(!all_sorted, "unordered_source");
    rep.nontrivial = nonempty >= 2 && (cross_tie || empty_between);

    let mk = |ls: &Vec<Vec<DltMessage>>| -> Vec<Box<dyn Iterator<Item = DltMessage>>> {
        ls.iter()
            .cloned()
            .map(|l| Box::new(l.into_iter()) as Box<dyn Iterator<Item = DltMessage>>)
            .collect()
    };
    // --- sorting merge
    let out: Vec<DltMessage> = if variant & 1 == 1 {
        SortingMultiReaderIterator::new_or_single_it(*start, mk(&lists)).collect()
    } else {
        SortingMultiReaderIterator::new(*start, mk(&lists)).collect()
    };
    ensure_eq!(out.len(), total, "merge: number of messages");
    for (i, m) in out.iter().enumerate() {
        ensure_eq!(m.index, start.wrapping_add(i as u32), "merge: index of output #{}", i);
    }
    let mut lastpos = vec![-1i64; lists.len()];
    for m in &out {
        let (s, p) = tag(m);
        ensure!(s < lists.len(), "merge: unknown source tag");
        ensure!(p == lastpos[s] + 1, "merge: per-source order/dup/loss: source {} pos {} after {}", s, p, lastpos[s]);
        lastpos[s] = p;
        let orig = &lists[s][p as usize];
        ensure!(DltMessage { index: m.index, ..orig.clone() } == *m, "merge: message altered (apart from its index): {:?} -> {:?}", orig, m);
    }
    if all_sorted {
        for w in out.windows(2) {
            ensure!(w[0].reception_time_us <= w[1].reception_time_us, "merge: output not ordered by reception time: {} > {}", w[0].reception_time_us, w[1].reception_time_us);
        }
    }
    // --- sequential chain
    let out2: Vec<DltMessage> = if variant & 2 == 2 && variant & 8 == 8 && lists.len() >= 2 {
        // an outer iterator whose size hint is not exact: (1, Some(n))
        rep.label("inexact_size_hint");
        let mut its = mk(&lists).into_iter();
        let first = its.next().unwrap();
        SequentialMultiIterator::new_or_single_it(*start, std::iter::once(first).chain(its.filter(|_| true))).collect()
    } else if variant & 2 == 2 {
        SequentialMultiIterator::new_or_single_it(*start, mk(&lists).into_iter()).collect()
    } else {
        SequentialMultiIterator::new(*start, mk(&lists).into_iter()).collect()
    };
    let concat: Vec<&DltMessage> = lists.iter().flat_map(|l| l.iter()).collect();
    ensure_eq!(out2.len(), concat.len(), "chain: number of messages");
    for (i, (a, b)) in out2.iter().zip(concat.iter()).enumerate() {
        ensure!(DltMessage { index: a.index, ..(*b).clone() } == *a, "chain: message #{} is not the (unaltered) message of the concatenation", i);
        ensure_eq!(a.index, start.wrapping_add(i as u32), "chain: index of #{}", i);
    }
    Ok(())
}

pub fn def(tier: Tier) -> PropertyDef {
    let src = (0u8..4, prop::collection::vec(0u64..6, 0..40));
    let strat = (
        prop_oneof![12 => prop::collection::vec(src.clone(), 0..9), 1 => prop::collection::vec(src, 9..48)],
        prop_oneof![2 => Just(0u32), 2 => 0u32..1000, 2 => 0u32..(u32::MAX - 100_000), 1 => (u32::MAX - 400)..=u32::MAX],
        0u8..16,
        prop_oneof![6 => Just(0u16), 3 => 1u16..5, 1 => 5u16..2000],
    );
    PropertyDef {
        id: "C09",
        rule: "0..8 (sometimes up to 47) sources x 0..39 messages with reception times non-decreasing / all equal / unordered / many ties, optional runs of up to 2000 empty sources, arbitrary start index (up to the one that gives the last message index u32::MAX), both constructors and both new_or_single_it variants; messages tagged (source, position); oracle: permutation, per-source order, consecutive indices, ordered output if all sources ordered, chain = concatenation. Non-trivial: >=2 non-empty sources and (cross-source tie or empty source between non-empty ones).",
        assumptions: vec!["for the single source short cut (start index documented as ignored) sources are numbered from the start index as the callers do"],
        subs: vec![sub("merge_and_chain", tier.pick(1_500_000, 20_000_000), strat, check)
            .rates(&[("cross_source_tie", 0.2), ("empty_source_between", 0.1), ("single_source", 0.03), ("identical_messages_across_sources", 0.3), ("inexact_size_hint", 0.1), ("last_index_is_u32_max", 0.01)])
            .boxed()],
        workers: 16,
    }
}
