//! C16 sub check C: several concurrent streams/queries per session, one-pass sessions
//! (`collect:"one_pass_streams"`), window change and stop while other streams are alive,
//! messages without extended header, time lookups between message times
use crate::engine::*;
use crate::model::filter::*;
use crate::model::remote::*;
use crate::model::trace::*;
use crate::props::c12::keep;
use crate::props::c14::Sandbox;
use crate::{ensure, ensure_eq};
use adlt::dlt::*;
use proptest::prelude::*;
use serde::{Deserialize, Serialize};
use std::io::Write;
use std::time::Duration;

#[derive(Clone, Debug, Serialize, Deserialize)]
pub struct SSpec {
    filters: Vec<AF>,
    is_query: bool,
    binary: bool,
    win: (u16, u16),
}

#[derive(Clone, Debug, Serialize, Deserialize)]
pub struct Case {
    spec: Vec<(u8, u8, u8, u8, bool)>, // apid, ctid, word, level, without extended header (only if `noext`)
    repeat: u8,
    noext: bool,
    one_pass: bool,
    streams: Vec<SSpec>,
    throttle: u8,
    sort: bool,
    /// normal sessions: wait for the end of parsing before the streams are created
    wait_parsed: bool,
    /// normal sessions: create the streams while the session is paused
    pause_first: bool,
    /// normal sessions: change the window of stream k right after creation (while parsing may still run)
    early_change: Option<(u8, (u16, u16))>,
    /// normal sessions: stop stream k after everything was verified, then change a window of another one
    stop: Option<(u8, (u16, u16))>,
    lookups: Vec<(u8, u16, u8)>, // stream, selector, placement (0: on a message, 1: between, 2: before the first)
    /// messages 10 s apart: the lifecycle is confirmed after 7 messages, so the rest reaches the server loop
    /// while parsing runs (2.5 ms apart: everything is held back until the end of the file)
    slow_clock: bool,
    /// groups of four messages share reception time and timestamp (lookups that hit such a time exactly)
    #[serde(default)]
    dup_times: bool,
}

fn gen_log(c: &Case) -> Vec<FMsg> {
    let mut fm = vec![];
    for _ in 0..=c.repeat {
        for (a, ct, w, l, ne) in &c.spec {
            let ext = if c.noext && *ne { None } else { Some((((1 + l % 6) << 4), a % 4, 4 + ct % 3)) };
            fm.push(FMsg { ecu: 0, ext, lifecycle: 0, word: *w, text_preset: false, odd_ecu: None });
        }
    }
    fm
}

struct Sess {
    c: Client,
    announced: Vec<(u32, usize)>,
}
impl Sess {
    fn cmd(&mut self, text: &str) -> Result<String, String> {
        let r = self.c.cmd(text, Duration::from_secs(20))?;
        if r.starts_with("ok:") {
            if let Some(id) = id_in_reply(&r) {
                self.announced.push((id, self.c.log.len() - 1));
            }
        }
        Ok(r)
    }
    /// (binary messages, end marker seen, text frames, log position of the last frame) of a stream id
    fn frames_of(&self, id: u32) -> (Vec<RMsg>, bool, Vec<(usize, String)>, usize) {
        let mut v = vec![];
        let mut ended = false;
        let mut texts = vec![];
        let mut last = 0;
        for (pos, f) in self.c.log.iter().enumerate() {
            match f {
                Frame::Msgs(i, m) if *i == id => {
                    if m.is_empty() {
                        ended = true;
                    }
                    v.extend(m.iter().cloned());
                    last = pos;
                }
                Frame::StreamText(t) => {
                    if let Some(rest) = t.strip_prefix(&format!("stream:{} msg(", id)) {
                        if let Some((i, text)) = rest.split_once("):") {
                            if let Ok(i) = i.parse::<usize>() {
                                texts.push((i, text.to_string()));
                                last = pos;
                            }
                        }
                    }
                }
                _ => {}
            }
        }
        (v, ended, texts, last)
    }
}

fn head<T: std::fmt::Debug>(v: &[T]) -> String {
    let s = format!("{:?}", &v[..std::cmp::min(v.len(), 24)]);
    if v.len() > 24 {
        format!("{}.. ({} items)", s, v.len())
    } else {
        s
    }
}

/// delivery under `id` must be exactly (or a prefix of) the file positions `exp`, stream positions from `wstart`
#[allow(clippy::too_many_arguments)]
fn verify(s: &mut Sess, id: u32, sp: &SSpec, exp: &[usize], wstart: usize, msgs: &[DltMessage], what: &str, complete: bool) -> Result<(), String> {
    let n = exp.len();
    let is_query = sp.is_query;
    if complete {
        s.c.wait_for(Duration::from_secs(15), &|log| {
            let mut cnt = 0;
            let mut ended = false;
            for f in log {
                match f {
                    Frame::Msgs(i, m) if *i == id => {
                        cnt += m.len();
                        ended |= m.is_empty();
                    }
                    Frame::StreamText(t) if t.starts_with(&format!("stream:{} ", id)) => cnt += 1,
                    _ => {}
                }
            }
            if is_query {
                ended
            } else {
                cnt >= n
            }
        });
    }
    let (got, ended, texts, _) = s.frames_of(id);
    if sp.binary {
        ensure!(texts.is_empty(), "{}: text frames on binary stream {}", what, id);
        let gi: Vec<u32> = got.iter().map(|m| m.index).collect();
        let ei: Vec<u32> = exp.iter().map(|p| msgs[*p].index).collect();
        if complete {
            ensure!(gi == ei, "{}: stream {} delivered message indices {:?}, its window holds {:?}", what, id, head(&gi), head(&ei));
        } else {
            ensure!(gi.len() <= ei.len() && gi[..] == ei[..gi.len()], "{}: stream {} delivered {:?} which is no prefix of its window {:?}", what, id, head(&gi), head(&ei));
        }
        for (g, p) in got.iter().zip(exp.iter()) {
            let e = &msgs[*p];
            let same = g.reception_time == e.reception_time_us
                && g.timestamp_dms == e.timestamp_dms
                && g.ecu == e.ecu.as_u32le()
                && g.apid == e.apid().map(|a| a.as_u32le()).unwrap_or(0)
                && g.ctid == e.ctid().map(|a| a.as_u32le()).unwrap_or(0)
                && g.mcnt == e.mcnt()
                && g.htyp == e.standard_header.htyp
                && g.vmm == e.verb_mstp_mtin().unwrap_or(0)
                && g.noar == e.noar()
                && g.text == e.payload_as_text().unwrap_or_default();
            ensure!(same, "{}: stream {}: fields of delivered message {} differ from the file: {:?}", what, id, g.index, g);
        }
    } else {
        ensure!(got.is_empty(), "{}: binary message frames on text stream {}", what, id);
        let gi: Vec<usize> = texts.iter().map(|t| t.0).collect();
        let ei: Vec<usize> = (wstart..wstart + n).collect();
        if complete {
            ensure!(gi == ei, "{}: text stream {} delivered positions {:?} expected {:?}", what, id, head(&gi), head(&ei));
        } else {
            ensure!(gi.len() <= ei.len() && gi[..] == ei[..gi.len()], "{}: text stream {} delivered positions {:?}, no prefix of {:?}", what, id, head(&gi), head(&ei));
        }
        for ((pos, t), p) in texts.iter().zip(exp.iter()) {
            let mut b = vec![];
            msgs[*p].header_as_text_to_write(&mut b).unwrap();
            ensure!(t.as_bytes() == &b[..], "{}: text stream {}: text of position {} differs from the file's message {}: {:?} vs {:?}", what, id, pos, msgs[*p].index, t, String::from_utf8_lossy(&b));
        }
    }
    if is_query && complete {
        ensure!(ended, "{}: query {} not terminated by the empty frame", what, id);
    }
    Ok(())
}

fn check(c: &Case, rep: &mut Rep) -> Result<(), String> {
    #[allow(non_snake_case)]
    let SPACING_US: u64 = if c.slow_clock { 10_000_000 } else { 2500 };
    let fm = gen_log(c);
    let total = fm.len();
    let sb = Sandbox::new("c16c");
    let path = sb.path("log.dlt");
    {
        let mut w = std::io::BufWriter::new(std::fs::File::create(&path).map_err(|e| e.to_string())?);
        for (i, f) in fm.iter().enumerate() {
            let mut m = f.build(i as u32);
            m.payload_text = None;
            let ti = if c.dup_times { i / 4 * 4 } else { i };
            m.reception_time_us = BASE + ti as u64 * SPACING_US;
            m.timestamp_dms = ti as u32 * (SPACING_US / 100) as u32;
            m.to_write(&mut w).map_err(|e| e.to_string())?;
        }
        w.flush().map_err(|e| e.to_string())?;
    }
    // the file's messages as adlt reads them (reference for the fields)
    let msgs: Vec<DltMessage> = {
        let data = std::fs::read(&path).map_err(|e| e.to_string())?;
        adlt::utils::get_dlt_message_iterator("dlt", 0, std::io::Cursor::new(data), 4242, None, None, None).collect()
    };
    ensure_eq!(msgs.len(), total, "harness: file re-read");
    // streams
    let specs: Vec<SSpec> = c
        .streams
        .iter()
        .map(|s| {
            let mut s = s.clone();
            if c.noext {
                // payload text of messages without extended header is not the generated word
                for f in s.filters.iter_mut() {
                    f.payload = None;
                }
            }
            if c.one_pass {
                // a query window is served from what has been processed; same semantics
            }
            s
        })
        .collect();
    let refpos: Vec<Vec<usize>> = specs.iter().map(|s| fm.iter().enumerate().filter(|(_, m)| keep(&s.filters, m, true)).map(|(i, _)| i).collect()).collect();
    let active: Vec<bool> = specs.iter().map(|s| s.filters.iter().any(|f| f.enabled && f.kind != 2)).collect();
    let stream_len = |k: usize| if active[k] { refpos[k].len() } else { total };
    let window = |k: usize, w: (u16, u16)| -> (usize, usize) {
        let l = stream_len(k);
        let a = w.0 as usize % (l + 4);
        (a, a + w.1 as usize % (l + 10))
    };
    let expect = |k: usize, w: (usize, usize)| -> Vec<usize> {
        let r = &refpos[k];
        if w.0 < r.len() && w.0 < w.1 {
            r[w.0..std::cmp::min(w.1, r.len())].to_vec()
        } else {
            vec![]
        }
    };
    let schedule = match c.throttle % 4 {
        0 if !c.one_pass => None,
        1 => Some((0..40).map(|_| "25:8").collect::<Vec<_>>().join(",")),
        2 => Some("7:50,2:40,3:40,5:40,10:40,20:40,40:40,80:40,160:40,320:40".to_string()),
        _ => Some("1:150,7:60,50:60,200:100".to_string()),
    };
    let mut srv = Server::start(&sb.dir, schedule.as_deref())?;
    let mut s = Sess { c: Client::connect(srv.port)?, announced: vec![] };
    let parsed = |log: &[Frame]| log.iter().any(|f| matches!(f, Frame::FileInfo(n) if *n as usize >= total));
    let mut cycles = 0usize;
    let mut did_early_change = false;
    let mut did_stop = false;
    let mut between_lookup = false;

    let result = (|| -> Result<(), String> {
        let collect = if c.one_pass { r#","collect":"one_pass_streams""# } else { "" };
        let r = s.cmd(&format!(r#"open {{"files":["{}"],"sort":{}{}}}"#, path.display(), c.sort, collect))?;
        ensure!(r.starts_with("ok:"), "open failed: {}", r);
        let wait_parsed = !c.one_pass && c.wait_parsed;
        if wait_parsed {
            ensure!(s.c.wait_for(Duration::from_secs(15), &parsed), "file never reported as parsed");
        }
        let paused = c.one_pass || c.pause_first;
        if !c.one_pass && c.pause_first {
            let r = s.cmd("pause")?;
            ensure!(r.starts_with("ok:"), "pause: {}", r);
        }
        let mut ids: Vec<u32> = vec![];
        let mut wins: Vec<(usize, usize)> = vec![];
        for (k, sp) in specs.iter().enumerate() {
            let w = window(k, sp.win);
            let js: Vec<String> = sp.filters.iter().map(to_json).collect();
            let kind = if sp.is_query { "query" } else { "stream" };
            let r = s.cmd(&format!(r#"{} {{"window":[{},{}],"binary":{},"one_pass":{},"filters":[{}]}}"#, kind, w.0, w.1, sp.binary, c.one_pass, js.join(",")))?;
            ensure!(r.starts_with("ok:"), "{} #{} refused: {}", kind, k, r);
            let id = id_in_reply(&r).ok_or("no id in reply")?;
            ensure!(!ids.contains(&id), "stream id {} announced twice", id);
            ids.push(id);
            wins.push(w);
        }
        // window change right after creation (possibly while parsing)
        let mut old_ids: Vec<(usize, u32)> = vec![];
        if let (false, Some((k, w))) = (c.one_pass, c.early_change) {
            let k = k as usize % specs.len();
            if !specs[k].is_query {
                let w = window(k, w);
                let r = s.cmd(&format!("stream_change_window {} {},{}", ids[k], w.0, w.1))?;
                ensure!(r.starts_with("ok:"), "stream_change_window refused: {}", r);
                let nid = id_in_reply(&r).ok_or("no id in change window reply")?;
                ensure!(!ids.contains(&nid), "window change announced an id in use: {}", nid);
                old_ids.push((k, ids[k]));
                ids[k] = nid;
                wins[k] = w;
                did_early_change = true;
            }
        }
        if paused {
            s.c.pump(Duration::from_millis(40));
            for id in &ids {
                let (got, _, texts, _) = s.frames_of(*id);
                ensure!(got.is_empty() && texts.is_empty(), "data of stream {} delivered while the session is paused", id);
            }
            let r = s.cmd("resume")?;
            ensure!(r.starts_with("ok:"), "resume: {}", r);
        }
        ensure!(s.c.wait_for(Duration::from_secs(20), &parsed), "file never reported as parsed ({:?} of {})", s.c.last_file_info(), total);
        cycles = s.c.log.iter().filter(|f| matches!(f, Frame::FileInfo(_))).count();
        // queries: complete when all messages were available at creation, or in one-pass sessions (they end with the parser)
        for (k, sp) in specs.iter().enumerate() {
            let complete = true; // queries created while parsing runs have to deliver their whole window as well
            let _ = wait_parsed;
            let exp = expect(k, wins[k]);
            verify(&mut s, ids[k], sp, &exp, wins[k].0, &msgs, "window", complete)?;
        }
        // replaced ids: only a prefix of the old window
        for (k, oid) in &old_ids {
            let w = window(*k, specs[*k].win);
            let exp = expect(*k, w);
            verify(&mut s, *oid, &specs[*k], &exp, w.0, &msgs, "window before the change", false)?;
        }
        // nothing beyond the windows may follow
        s.c.pump(Duration::from_millis(120));
        for (k, sp) in specs.iter().enumerate() {
            let complete = true; // queries created while parsing runs have to deliver their whole window as well
            let _ = wait_parsed;
            let exp = expect(k, wins[k]);
            verify(&mut s, ids[k], sp, &exp, wins[k].0, &msgs, "window (settled)", complete)?;
        }
        if !c.one_pass {
            // lookups
            for (k, sel, place) in &c.lookups {
                let k = *k as usize % specs.len();
                if specs[k].is_query {
                    continue;
                }
                let positions: Vec<usize> = if active[k] { refpos[k].clone() } else { (0..total).collect() };
                if active[k] {
                    // (a status frame may carry the id the stream had before a window change)
                    let idk = ids[k];
                    let chain: Vec<u32> = old_ids.iter().filter(|o| o.0 == k).map(|o| o.1).chain(std::iter::once(idk)).collect();
                    ensure!(s.c.wait_for(Duration::from_secs(20), &|log| log.iter().any(|f| matches!(f, Frame::StreamInfo{id, processed, ..} if chain.contains(id) && *processed as usize >= total))), "stream {} never reported all file messages as processed", idk);
                }
                let i = *sel as u64 % (total as u64 + 2);
                if *place == 3 {
                    // index lookup: position of the first stream message whose index is not before the requested one
                    let idx = i as usize;
                    if idx < total {
                        let r = s.cmd(&format!("stream_binary_search {} index={}", ids[k], idx))?;
                        let exp = positions.iter().position(|p| *p >= idx).unwrap_or(positions.len());
                        ensure!(r.starts_with("ok:") && r.contains(&format!("\"filtered_msg_index\":{}}}", exp)), "index lookup {} on stream {} (sorted session: {}, equal times: {}): {} but the first stream message not before it is at position {}", idx, ids[k], c.sort, c.dup_times, r, exp);
                    }
                    continue;
                }
                let i = if c.dup_times { i / 4 * 4 } else { i };
                let t_ms = match place {
                    0 => (BASE + i * SPACING_US) / 1000 + if (i * SPACING_US) % 1000 == 0 { 0 } else { 1 },
                    1 => (BASE + i * SPACING_US + SPACING_US / 2) / 1000,
                    _ => BASE / 1000 - 1 - i,
                };
                let r = s.cmd(&format!("stream_binary_search {} time_ms={}", ids[k], t_ms))?;
                let exp = positions.iter().position(|p| msgs[*p].reception_time_us >= t_ms * 1000).unwrap_or(positions.len());
                between_lookup |= positions.iter().all(|p| msgs[*p].reception_time_us != t_ms * 1000);
                ensure!(r.starts_with("ok:") && r.contains(&format!("\"filtered_msg_index\":{}}}", exp)), "time lookup {} ms on stream {}: {} but the first stream message not before it is at position {}", t_ms, ids[k], r, exp);
            }
            // stop one stream; the others stay usable
            if let Some((k, w)) = c.stop {
                let k = k as usize % specs.len();
                if !specs[k].is_query {
                    let r = s.cmd(&format!("stop {}", ids[k]))?;
                    ensure!(r.starts_with("ok:"), "stop refused: {}", r);
                    did_stop = true;
                    if let Some(o) = (0..specs.len()).find(|o| *o != k && !specs[*o].is_query) {
                        let w = window(o, w);
                        let r = s.cmd(&format!("stream_change_window {} {},{}", ids[o], w.0, w.1))?;
                        ensure!(r.starts_with("ok:"), "stream_change_window after stopping another stream refused: {}", r);
                        let nid = id_in_reply(&r).ok_or("no id in change window reply")?;
                        let exp = expect(o, w);
                        verify(&mut s, nid, &specs[o], &exp, w.0, &msgs, "window of another stream after a stop", true)?;
                    }
                    let r = s.cmd(&format!("stream_change_window {} 0,5", ids[k]))?;
                    ensure!(r.starts_with("err:"), "stopped stream {} still usable: {}", ids[k], r);
                }
            }
        }
        // every data frame belongs to an announced id and comes after the announcement
        for (pos, f) in s.c.log.iter().enumerate() {
            let fid = match f {
                Frame::Msgs(i, _) => Some(*i),
                Frame::StreamInfo { id, .. } => Some(*id),
                Frame::StreamText(t) => t.strip_prefix("stream:").and_then(|r| r.split(' ').next()).and_then(|x| x.parse().ok()),
                _ => None,
            };
            if let Some(fid) = fid {
                match s.announced.iter().find(|a| a.0 == fid) {
                    Some((_, apos)) => ensure!(*apos < pos, "frame for stream id {} arrived before the reply announcing it", fid),
                    None => return Err(format!("frame for stream id {} which was never announced", fid)),
                }
            }
        }
        let r = s.cmd("close")?;
        ensure!(r.starts_with("ok:"), "close failed: {}", r);
        Ok(())
    })();
    let alive = srv.alive();
    let stderr = srv.stderr_text();
    drop(s);
    drop(srv);
    result?;
    ensure!(alive && !stderr.contains("panicked"), "server died or panicked: {}", stderr.lines().rev().take(3).collect::<Vec<_>>().join(" / "));
    rep.label_if(c.one_pass, "one_pass_session");
    rep.label_if(c.one_pass && cycles >= 3, "one_pass_ge3_cycles");
    rep.label_if(!c.one_pass && cycles >= 3, "collect_all_ge3_cycles");
    rep.label_if(c.one_pass && specs.iter().any(|s| !s.binary), "one_pass_text_stream");
    rep.label_if(specs.len() >= 2, "ge2_streams");
    rep.label_if(specs.iter().any(|s| s.is_query) && specs.iter().any(|s| !s.is_query), "stream_and_query");
    rep.label_if(did_early_change, "early_window_change");
    rep.label_if(did_stop, "stop_with_others_alive");
    rep.label_if(between_lookup, "lookup_between_messages");
    rep.label_if(c.noext && fm.iter().any(|m| m.ext.is_none()), "msgs_without_ext_header");
    rep.label_if(c.sort, "sorted_session");
    rep.label_if(c.dup_times, "equal_message_times");
    let distinct = (0..specs.len()).any(|a| (0..a).any(|b| refpos[a] != refpos[b] || window(a, specs[a].win) != window(b, specs[b].win)));
    rep.nontrivial = (specs.len() >= 2 && distinct) || (c.one_pass && cycles >= 3);
    Ok(())
}

/// a file larger than the server's 512 KiB read buffer made of near-maximum messages: every message is delivered
/// (a message that straddles a refill of the reader must be seen completely)
fn large_file(v: &(Vec<(u16, u8)>, bool), rep: &mut Rep) -> Result<(), String> {
    let (lens, sort) = v;
    let sb = Sandbox::new("c16big");
    let path = sb.path("big.dlt");
    {
        let mut w = std::io::BufWriter::new(std::fs::File::create(&path).map_err(|e| e.to_string())?);
        for (i, (l, ch)) in lens.iter().enumerate() {
            let len = 38_000 + (*l as usize % 27_400); // string of 38000..65400 bytes
            let text: String = std::iter::repeat((b'a' + ch % 26) as char).take(len).collect();
            let mut m = FMsg { ecu: 0, ext: Some((0x41, 0, 4)), lifecycle: 0, word: 0, text_preset: false, odd_ecu: None }.build(i as u32);
            m.payload = string_payload(&text);
            m.payload_text = None;
            m.reception_time_us = BASE + i as u64 * 10_000_000;
            m.timestamp_dms = i as u32 * 100_000;
            m.to_write(&mut w).map_err(|e| e.to_string())?;
        }
        w.flush().map_err(|e| e.to_string())?;
    }
    let msgs: Vec<DltMessage> = {
        let data = std::fs::read(&path).map_err(|e| e.to_string())?;
        adlt::utils::get_dlt_message_iterator("dlt", 0, std::io::Cursor::new(data), 4242, None, None, None).collect()
    };
    let total = msgs.len();
    ensure_eq!(total, lens.len(), "harness: file re-read");
    let mut srv = Server::start(&sb.dir, None)?;
    let mut s = Sess { c: Client::connect(srv.port)?, announced: vec![] };
    let result = (|| -> Result<(), String> {
        let r = s.cmd(&format!(r#"open {{"files":["{}"],"sort":{}}}"#, path.display(), sort))?;
        ensure!(r.starts_with("ok:"), "open failed: {}", r);
        let r = s.cmd(&format!(r#"stream {{"window":[0,{}],"binary":true}}"#, total + 5))?;
        ensure!(r.starts_with("ok:"), "stream refused: {}", r);
        let id = id_in_reply(&r).ok_or("no id")?;
        ensure!(s.c.wait_for(Duration::from_secs(30), &|log| log.iter().any(|f| matches!(f, Frame::FileInfo(n) if *n as usize >= total))), "the server reports {:?} of the {} messages of the file", s.c.last_file_info(), total);
        s.c.wait_for(Duration::from_secs(20), &|log| log.iter().map(|f| if let Frame::Msgs(i, m) = f { if *i == id { m.len() } else { 0 } } else { 0 }).sum::<usize>() >= total);
        s.c.pump(Duration::from_millis(100));
        let (got, _, _, _) = s.frames_of(id);
        ensure_eq!(got.len(), total, "messages delivered for a {} KiB file", std::fs::metadata(&path).map(|m| m.len() / 1024).unwrap_or(0));
        for (g, e) in got.iter().zip(msgs.iter()) {
            ensure!(g.index == e.index && g.text == e.payload_as_text().unwrap_or_default(), "delivered message {} differs from the file's message {} (text {} vs {} bytes)", g.index, e.index, g.text.len(), e.payload_as_text().unwrap_or_default().len());
        }
        let r = s.cmd("close")?;
        ensure!(r.starts_with("ok:"), "close failed: {}", r);
        Ok(())
    })();
    let alive = srv.alive();
    let stderr = srv.stderr_text();
    drop(s);
    drop(srv);
    result?;
    ensure!(alive && !stderr.contains("panicked"), "server died or panicked: {}", stderr.lines().rev().take(3).collect::<Vec<_>>().join(" / "));
    rep.label("file_larger_than_read_buffer");
    rep.nontrivial = true;
    Ok(())
}
/// files with tens of thousands of small messages: windows far larger than anything the server might handle in one of
/// its cycles (streams and queries, with and without filter, asked while the file is read and after it was read)
/// (number of messages selector, sort, [(is_query, window start sel, window length sel, filter kind, early)])
fn many_messages(v: &(u16, bool, Vec<(bool, u16, u16, u8, bool)>), rep: &mut Rep) -> Result<(), String> {
    let (nsel, sort, reqs) = v;
    let total = 20_000 + (*nsel as usize % 45_000);
    let sb = Sandbox::new("c16many");
    let path = sb.path("many.dlt");
    {
        let mut w = std::io::BufWriter::new(std::fs::File::create(&path).map_err(|e| e.to_string())?);
        for i in 0..total {
            // two applications alternate in runs of 1..3 messages; 10 ms apart (the file spans several minutes)
            let mut m = FMsg { ecu: 0, ext: Some((0x41, if (i / (1 + i % 3)) % 2 == 0 { 0 } else { 1 }, 4)), lifecycle: 0, word: (i % 5) as u8, text_preset: false, odd_ecu: None }.build(i as u32);
            m.reception_time_us = BASE + i as u64 * 10_000;
            m.timestamp_dms = i as u32 * 100;
            m.payload_text = None;
            m.to_write(&mut w).map_err(|e| e.to_string())?;
        }
        w.flush().map_err(|e| e.to_string())?;
    }
    let msgs: Vec<DltMessage> = {
        let data = std::fs::read(&path).map_err(|e| e.to_string())?;
        adlt::utils::get_dlt_message_iterator("dlt", 0, std::io::Cursor::new(data), 4242, None, None, None).collect()
    };
    ensure_eq!(msgs.len(), total, "harness: file re-read");
    let apid0 = msgs[0].apid().cloned();
    let mut srv = Server::start(&sb.dir, None)?;
    let mut s = Sess { c: Client::connect(srv.port)?, announced: vec![] };
    let result = (|| -> Result<(), String> {
        let r = s.cmd(&format!(r#"open {{"files":["{}"],"sort":{}}}"#, path.display(), sort))?;
        ensure!(r.starts_with("ok:"), "open failed: {}", r);
        let mut asked: Vec<(u32, bool, usize, usize, u8)> = vec![];
        let ask = |s: &mut Sess, q: &(bool, u16, u16, u8, bool)| -> Result<(u32, bool, usize, usize, u8), String> {
            let (is_query, ssel, lsel, fk, _) = q;
            let start = (*ssel as usize * (total / 2)) >> 16;
            // lengths around the powers of two a chunked implementation would pick, and up to everything
            let len = match lsel % 8 {
                0 => 16_384 + (*lsel as usize / 8) % 3,
                1 => 32_768 + (*lsel as usize / 8) % 3,
                2 => 10_000 + (*lsel as usize / 8) % 9_000,
                3 => total + 10,
                _ => 16_000 + ((*lsel as usize * 50_000) >> 16),
            };
            let filters = match fk % 3 {
                0 => String::new(),
                1 => r#"{"type":0,"ecu":"ECU1"}"#.to_string(), // (keeps everything)
                _ => format!(r#"{{"type":0,"apid":"{}"}}"#, apid0.map(|a| a.to_string()).unwrap_or_default().trim_end()),
            };
            let kind = if *is_query { "query" } else { "stream" };
            let r = s.cmd(&format!(r#"{} {{"window":[{},{}],"binary":true,"filters":[{}]}}"#, kind, start, start + len, filters))?;
            ensure!(r.starts_with("ok:"), "{} refused: {}", kind, r);
            Ok((id_in_reply(&r).ok_or("no id")?, *is_query, start, len, fk % 3))
        };
        for q in reqs.iter().filter(|q| q.4) {
            asked.push(ask(&mut s, q)?);
        }
        ensure!(s.c.wait_for(Duration::from_secs(150), &|log| log.iter().any(|f| matches!(f, Frame::FileInfo(n) if *n as usize >= total))), "the server reports {:?} of the {} messages of the file", s.c.last_file_info(), total);
        s.c.pump(Duration::from_millis(300));
        for q in reqs.iter().filter(|q| !q.4) {
            asked.push(ask(&mut s, q)?);
        }
        // reference: file order (sorted = file order here: times increase with the index)
        let name0 = apid0;
        for (id, is_query, start, len, fk) in &asked {
            let keep: Vec<u32> = msgs.iter().filter(|m| *fk != 2 || m.apid().cloned() == name0).map(|m| m.index).collect();
            let exp: Vec<u32> = keep.iter().skip(*start).take(*len).cloned().collect();
            let done = |log: &[Frame]| {
                let mut n = 0;
                let mut ended = false;
                for f in log {
                    if let Frame::Msgs(i, m) = f {
                        if i == id {
                            n += m.len();
                            ended |= m.is_empty();
                        }
                    }
                }
                if *is_query { ended } else { n >= exp.len() }
            };
            s.c.wait_for(Duration::from_secs(120), &|log| done(log));
            s.c.pump(Duration::from_millis(50));
            let (got, ended, _, _) = s.frames_of(*id);
            let gi: Vec<u32> = got.iter().map(|g| g.index).collect();
            let what = format!("{} {} window [{}, {}) filter kind {} on a file of {} messages", if *is_query { "query" } else { "stream" }, id, start, start + len, fk, total);
            ensure!(!*is_query || ended, "{}: not terminated by the empty frame ({} messages delivered)", what, gi.len());
            ensure!(gi == exp, "{}: delivered {} messages {}, expected {} messages {}", what, gi.len(), head(&gi), exp.len(), head(&exp));
            rep.label_if(exp.len() > 16_384, "window_gt_16384");
            rep.label_if(exp.len() > 32_768, "window_gt_32768");
        }
        let r = s.cmd("close")?;
        ensure!(r.starts_with("ok:"), "close failed: {}", r);
        Ok(())
    })();
    let alive = srv.alive();
    let stderr = srv.stderr_text();
    drop(s);
    drop(srv);
    result?;
    ensure!(alive && !stderr.contains("panicked"), "server died or panicked: {}", stderr.lines().rev().take(3).collect::<Vec<_>>().join(" / "));
    rep.label_if(reqs.iter().any(|q| q.0 && !q.4), "query_after_the_file_was_read");
    rep.label_if(reqs.iter().any(|q| q.4), "asked_while_reading");
    rep.nontrivial = !reqs.is_empty();
    Ok(())
}
pub fn def_sub_many(tier: Tier) -> Box<dyn DynSub> {
    let req = (any::<bool>(), any::<u16>(), any::<u16>(), 0u8..3, prop::bool::weighted(0.3));
    sub("many_messages", tier.pick(24, 500), (any::<u16>(), prop::bool::weighted(0.3), prop::collection::vec(req, 1..5)), many_messages)
        .rates(&[("window_gt_16384", 0.5), ("query_after_the_file_was_read", 0.4)])
        .shrink_iters(20)
        .slow()
        .boxed()
}
pub fn def_sub_large(tier: Tier) -> Box<dyn DynSub> {
    sub("large_file", tier.pick(32, 600), (prop::collection::vec((any::<u16>(), any::<u8>()), 12..26), prop::bool::weighted(0.3)), large_file).shrink_iters(20).slow().boxed()
}

pub fn def_sub(tier: Tier) -> Box<dyn DynSub> {
    let simple = (prop_oneof![4 => Just(0u8), 2 => Just(1u8), 1 => Just(3u8)], prop::bool::weighted(0.9), 0u8..4).prop_flat_map(|(kind, enabled, what)| {
        let idc = |v: Vec<&'static str>| prop::sample::select(v).prop_map(|s| Some(IdCrit::Lit(s.to_string())));
        let apid = match what {
            0 | 3 => idc(vec!["ECU1", "ECU2", "AB", "ABC"]).boxed(),
            _ => Just(None).boxed(),
        };
        let ctid = match what {
            1 => idc(vec!["A", "SYS", "ABCD"]).boxed(),
            _ => Just(None).boxed(),
        };
        let pay = match what {
            2 => prop::sample::select(vec!["error", "Error", "low", "x", "beta"]).prop_map(|s| Some(PayCrit::Lit(s.to_string()))).boxed(),
            _ => Just(None).boxed(),
        };
        (Just(kind), Just(enabled), apid, ctid, pay, prop::option::weighted(0.15, 2u8..6))
    })
    .prop_map(|(kind, enabled, apid, ctid, payload, level_min)| AF { kind, enabled, negated: false, ecu: None, apid, ctid, mtype: None, level_min, level_max: None, payload, ignore_case: false, lifecycles: None, explicit_regex_flags: false });
    let win = prop_oneof![6 => (any::<u16>(), any::<u16>()), 1 => (any::<u16>(), Just(0u16)), 2 => (Just(0u16), any::<u16>())];
    let sspec = (prop::collection::vec(simple, 0..3), prop::bool::weighted(0.3), prop::bool::weighted(0.6), win.clone()).prop_map(|(filters, is_query, binary, win)| SSpec { filters, is_query, binary, win });
    let case = (
        (prop::collection::vec((0u8..4, 0u8..3, 0u8..8, 0u8..6, prop::bool::weighted(0.3)), 5..120), prop_oneof![4 => Just(0u8), 3 => 1u8..4, 2 => 10u8..30], prop::bool::weighted(0.25)),
        (prop::bool::weighted(0.45), prop::collection::vec(sspec, 1..4)),
        (0u8..4, prop::bool::weighted(0.35), prop::bool::weighted(0.3), prop::bool::weighted(0.4)),
        (prop::option::weighted(0.35, (any::<u8>(), win.clone())), prop::option::weighted(0.35, (any::<u8>(), win))),
        (prop::collection::vec((any::<u8>(), any::<u16>(), 0u8..4), 0..5), prop::bool::weighted(0.75), prop::bool::weighted(0.35)),
    )
        .prop_map(|((spec, repeat, noext), (one_pass, streams), (throttle, sort, wait_parsed, pause_first), (early_change, stop), (lookups, slow_clock, dup_times))| Case { spec, repeat, noext, one_pass, streams, throttle, sort, wait_parsed, pause_first, early_change, stop, lookups, slow_clock, dup_times });
    sub("concurrent_streams", tier.pick(260, 7_000), case, check)
        .rates(&[("one_pass_session", 0.3), ("one_pass_ge3_cycles", 0.08), ("collect_all_ge3_cycles", 0.08), ("one_pass_text_stream", 0.1), ("ge2_streams", 0.5), ("stream_and_query", 0.1), ("early_window_change", 0.05), ("stop_with_others_alive", 0.05), ("lookup_between_messages", 0.1), ("msgs_without_ext_header", 0.1)])
        .shrink_iters(40)
        .slow()
        .boxed()
}
