use adlt_verif::engine::*;
use adlt_verif::props;
use std::collections::HashSet;
use std::path::{Path, PathBuf};

fn parse_tier(s: &str) -> Tier {
    match s {
        "quick" => Tier::Quick,
        "thorough" => Tier::Thorough,
        _ => {
            eprintln!("unknown tier {}", s);
            std::process::exit(2)
        }
    }
}

fn seed_from_env() -> u64 {
    std::env::var("VERIF_SEED")
        .ok()
        .and_then(|s| s.trim().parse::<i128>().ok())
        .map(|v| v as u64)
        .unwrap_or(20261003)
}

fn main() {
    let args: Vec<String> = std::env::args().collect();
    if args.len() < 2 {
        eprintln!("usage: adlt-verif run <Cxx> <quick|thorough> | replay <file> | worker ...");
        std::process::exit(2);
    }
    match args[1].as_str() {
        "worker" => {
            // worker <prop> <tier> <seed> <widx> <wcount> <out> <skiplist>
            let tier = parse_tier(&args[3]);
            let skip: HashSet<(String, u64)> = args
                .get(8)
                .map(|s| s.as_str())
                .unwrap_or("")
                .split(',')
                .filter_map(|e| {
                    let (a, b) = e.rsplit_once(':')?;
                    Some((a.to_string(), b.parse().ok()?))
                })
                .collect();
            let wa = WorkerArgs {
                prop: args[2].clone(),
                tier,
                seed: args[4].parse().unwrap(),
                widx: args[5].parse().unwrap(),
                wcount: args[6].parse().unwrap(),
                out: PathBuf::from(&args[7]),
                skip,
            };
            let def = props::get(&wa.prop, tier).expect("unknown property");
            worker_main(def, &wa);
        }
        "replay" => {
            let quiet = args.iter().any(|a| a == "--quiet");
            std::process::exit(replay_file(Path::new(&args[2]), quiet));
        }
        "fuzz" => {
            // developer command: adlt-verif fuzz <target> <secs> [jobs]
            let work = work_dir().join(format!("fuzzdev_{}", std::process::id()));
            let _ = std::fs::create_dir_all(&work);
            let r = adlt_verif::fuzzing::campaign(&args[2], seed_from_env(), args[3].parse().unwrap(), args.get(4).and_then(|s| s.parse().ok()).unwrap_or(8), &work);
            println!("{}", serde_json::to_string_pretty(&r).unwrap());
        }
        "run" => {
            let prop = args[2].clone();
            let tier = parse_tier(args.get(3).map(|s| s.as_str()).unwrap_or("quick"));
            std::process::exit(run(&prop, tier, seed_from_env()));
        }
        _ => {
            eprintln!("unknown command");
            std::process::exit(2);
        }
    }
}

fn replay_file(path: &Path, quiet: bool) -> i32 {
    // scratch space for replays (files of binary-level checks); removed afterwards
    let run_dir = work_dir().join(format!("replay_{}", std::process::id()));
    let _ = std::fs::create_dir_all(&run_dir);
    std::env::set_var("VERIF_RUN_DIR", &run_dir);
    std::env::set_var("TMPDIR", tmp_dir());
    let rc = replay_file_inner(path, quiet);
    let _ = std::fs::remove_dir_all(&run_dir);
    rc
}

fn replay_file_inner(path: &Path, quiet: bool) -> i32 {
    install_panic_hook();
    let rf: ReplayFile = match std::fs::read(path)
        .ok()
        .and_then(|b| serde_json::from_slice(&b).ok())
    {
        Some(r) => r,
        None => {
            eprintln!("cannot read replay file {}", path.display());
            return 2;
        }
    };
    // replays always use the thorough definition? no: sub checks are identical in both tiers apart from sizes
    let def = match props::get(&rf.property, Tier::Quick) {
        Some(d) => d,
        None => {
            eprintln!("unknown property {}", rf.property);
            return 2;
        }
    };
    if !quiet {
        // keep stdout clean from adlt's println! by not caring: replay is for humans
    }
    {
        // a replay that does not end: violation for C03 (termination is part of its statement), inconclusive elsewhere
        let (prop, pth, limit) = (rf.property.clone(), path.display().to_string(), hang_secs());
        std::thread::spawn(move || {
            std::thread::sleep(std::time::Duration::from_secs(limit));
            if prop == "C03" {
                if !quiet {
                    println!("replay failed: the case did not end within {} s", limit);
                    println!("VIOLATION property={} replay={}", prop, pth);
                }
                std::process::exit(1);
            }
            eprintln!("watchdog: replay did not end within {} s (inconclusive)", limit);
            std::process::exit(2);
        });
    }
    for s in &def.subs {
        if s.name() == rf.subcheck {
            let (r, rep) = s.replay(&rf.case);
            return match r {
                Ok(()) => {
                    if !quiet {
                        println!("replay {}: property held (labels {:?})", path.display(), rep.labels);
                    }
                    0
                }
                Err(e) => {
                    if !quiet {
                        println!("replay failed: {}", e);
                        println!("VIOLATION property={} replay={}", rf.property, path.display());
                    } else {
                        eprintln!("REPLAY-FAIL {}", e);
                    }
                    1
                }
            };
        }
    }
    eprintln!("unknown sub check {}", rf.subcheck);
    2
}

fn run(prop: &str, tier: Tier, seed: u64) -> i32 {
    let t0 = std::time::Instant::now();
    let def = match props::get(prop, tier) {
        Some(d) => d,
        None => {
            eprintln!("unknown property {}", prop);
            return 2;
        }
    };
    let sub_cases: Vec<(String, u64)> = def
        .subs
        .iter()
        .map(|s| (s.name().to_string(), s.cases()))
        .collect();
    // 1. pinned reproducers of listed findings
    let mut known_lines = vec![];
    let mut violations: Vec<(String, PathBuf)> = vec![];
    let mut regression_replays = 0;
    for kf in load_known_findings() {
        if !kf.properties.iter().any(|p| p == prop) {
            continue;
        }
        let mut reproduced = false;
        for r in &kf.repro {
            let p = verif_dir().join(r);
            // only the replays that belong to this property
            let rf: Option<ReplayFile> = std::fs::read(&p).ok().and_then(|b| serde_json::from_slice(&b).ok());
            match rf {
                Some(rf) if rf.property == prop => {}
                Some(_) => continue,
                None => {
                    eprintln!("warning: repro {} of {} unreadable", r, kf.id);
                    continue;
                }
            }
            regression_replays += 1;
            let st = std::process::Command::new(std::env::current_exe().unwrap())
                .arg("replay")
                .arg(&p)
                .arg("--quiet")
                .env("RAYON_NUM_THREADS", "1")
                .env("TZ", "UTC")
                .env("TMPDIR", tmp_dir())
                .stdout(std::process::Stdio::null())
                .stderr(std::process::Stdio::null())
                .status()
                .expect("spawn replay");
            let failed = !st.success();
            if st.code() == Some(2) {
                eprintln!("warning: replay of {} returned an infrastructure error", r);
                continue;
            }
            if failed {
                if kf.status == "open" {
                    reproduced = true;
                } else {
                    violations.push((
                        format!("listed as fixed ({}) but its reproducer fails again: {}", kf.id, kf.what),
                        p.clone(),
                    ));
                }
            }
        }
        if reproduced {
            known_lines.push(format!("KNOWN-FINDING: property={} {} {}", prop, kf.id, kf.what));
        }
    }
    // 2. search
    let gen = |sname: &str, idx: u64| -> serde_json::Value {
        match def.subs.iter().find(|s| s.name() == sname) {
            Some(s) => s.generate(&case_seed(seed, prop, sname, idx)),
            None => serde_json::Value::Null,
        }
    };
    let mut summary = supervise(prop, tier, seed, &sub_cases, def.workers, &gen);
    summary.known_lines = known_lines;
    let mut v = violations;
    v.append(&mut summary.violations);
    summary.violations = v;
    // 3. generator health
    for s in &def.subs {
        if let Some(st) = summary.subs.get(s.name()) {
            let excluded: u64 = st.excluded.values().sum();
            let denom = st.evaluations.saturating_sub(excluded).max(1) as f64;
            for (l, min) in s.min_label_rates() {
                let c = *st.labels.get(*l).unwrap_or(&0) as f64;
                // a miss only counts when it is statistically significant (6 standard deviations of the binomial
                // count below the expected minimum): sub checks with a few hundred cases would otherwise flag
                // sampling noise, and timing dependent labels vary with the load of the machine
                let sd = (denom * *min * (1.0 - *min)).max(0.0).sqrt();
                if st.failures.is_empty() && c + 6.0 * sd < *min * denom {
                    summary.infra_errors.push(format!(
                        "generator health: label '{}' of {} reached {:.4} < {:.4}",
                        l,
                        s.name(),
                        c / denom,
                        min
                    ));
                }
            }
            if st.evaluations < s.cases() && st.failures.is_empty() {
                summary.infra_errors.push(format!(
                    "sub check {} ran {} of {} cases",
                    s.name(),
                    st.evaluations,
                    s.cases()
                ));
            }
        } else if s.cases() > 0 {
            summary.infra_errors.push(format!("no result for sub check {}", s.name()));
        }
    }
    // 2b. coverage guided campaigns (thorough tier only)
    let mut fuzz_results = vec![];
    if tier == Tier::Thorough && std::env::var("VERIF_NO_FUZZ").is_err() {
        let secs: u64 = std::env::var("VERIF_FUZZ_SECS").ok().and_then(|s| s.parse().ok()).unwrap_or(420);
        let work = work_dir().join(format!("fuzz_{}_{}", prop, std::process::id()));
        let _ = std::fs::create_dir_all(&work);
        for (p, target) in adlt_verif::fuzzing::TARGETS {
            if *p != prop {
                continue;
            }
            let r = adlt_verif::fuzzing::campaign(target, seed, secs, 14, &work);
            for (ai, art) in r.artifacts.iter().enumerate() {
                if ai >= 5 {
                    break;
                }
                // turn the artifact into a replay file and re-check it with the deterministic harness
                let data = std::fs::read(art).unwrap_or_default();
                let rf = ReplayFile {
                    property: prop.to_string(),
                    subcheck: format!("fuzz_{}", target),
                    seed,
                    index: 1_000_000 + ai as u64,
                    message: format!("libFuzzer artifact {}", art),
                    case: serde_json::to_value(&data).unwrap(),
                    finding: None,
                };
                let rp = write_replay(&rf);
                let st = std::process::Command::new("timeout")
                    .arg("600")
                    .arg(std::env::current_exe().unwrap())
                    .arg("replay")
                    .arg(&rp)
                    .arg("--quiet")
                    .env("RAYON_NUM_THREADS", "1")
                    .env("TZ", "UTC")
                    .stdout(std::process::Stdio::null())
                    .stderr(std::process::Stdio::null())
                    .status();
                match st {
                    Ok(st) if st.code() == Some(0) || st.code() == Some(124) || st.code() == Some(2) => summary.infra_errors.push(format!("libFuzzer artifact {} of target {} does not reproduce in the deterministic harness (kept as {})", art, target, rp.display())),
                    _ => summary.violations.push((format!("libFuzzer target {} found a failing input ({} bytes)", target, data.len()), rp)),
                }
            }
            if r.executions == 0 {
                summary.infra_errors.push(format!("fuzz campaign {}: {}", target, r.note));
            }
            fuzz_results.push(serde_json::to_value(&r).unwrap());
        }
        let _ = std::fs::remove_dir_all(&work);
    }
    let wall = t0.elapsed().as_secs_f64();
    write_evidence(
        prop,
        tier,
        seed,
        def.rule,
        &def.assumptions,
        &summary,
        wall,
        serde_json::json!({"finding_reproducers_replayed": regression_replays, "libfuzzer_campaigns": fuzz_results}),
    );
    for l in &summary.known_lines {
        println!("{}", l);
    }
    for (name, st) in &summary.subs {
        println!(
            "{} {}: {} cases, {} non-trivial, excluded {:?}, labels {:?}",
            prop, name, st.evaluations, st.nontrivial, st.excluded, st.labels
        );
    }
    if !summary.violations.is_empty() {
        for (msg, p) in &summary.violations {
            let short: String = msg.chars().take(600).collect();
            println!("failure: {}", short);
            println!("VIOLATION property={} replay={}", prop, p.display());
        }
        return 1;
    }
    if !summary.infra_errors.is_empty() {
        for e in &summary.infra_errors {
            println!("INCONCLUSIVE: {}", e);
        }
        return 2;
    }
    println!("{} {}: held on everything explored ({:.1}s)", prop, tier.name(), wall);
    0
}
