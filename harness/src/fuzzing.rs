//! oracles behind the libFuzzer targets (bytes -> structured arguments -> semantic oracle); the same functions back the
//! `fuzz_*` sub checks so that a crashing input replays through `./check replay`
use crate::engine::*;
use crate::model::args::Val;
use crate::model::wire::*;
use crate::props::c04::Sched;
use arbitrary::Unstructured;

/// (property, target)
pub const TARGETS: &[(&str, &str)] = &[("C03", "chain_fast"), ("C03", "chain_plugins"), ("C01", "framing"), ("C04", "framing"), ("C18", "args")];

fn id4(u: &mut Unstructured) -> [u8; 4] {
    let mut b = [0u8; 4];
    let _ = u.fill_buffer(&mut b);
    b
}

fn stream_from(u: &mut Unstructured) -> Stream {
    let serial = u.arbitrary::<bool>().unwrap_or(false);
    let n = u.int_in_range(0..=10usize).unwrap_or(0);
    let mut elems = vec![];
    for _ in 0..n {
        if u.ratio(1u8, 3u8).unwrap_or(false) {
            let len = u.int_in_range(0..=64usize).unwrap_or(0);
            let mut b = vec![0u8; len];
            let _ = u.fill_buffer(&mut b);
            elems.push(Elem::G(Fill::from_bytes(&b)));
        } else {
            let htyp = (u.arbitrary::<u8>().unwrap_or(0) & 0x1f) | 0x20;
            let max = WMsg::max_payload(htyp);
            let len = match u.int_in_range(0..=9u8).unwrap_or(0) {
                0 => max - u.int_in_range(0..=12usize).unwrap_or(0),
                1 => u.int_in_range(0..=max).unwrap_or(0),
                _ => u.int_in_range(0..=80usize).unwrap_or(0),
            };
            let clen = u.int_in_range(0..=16usize).unwrap_or(0);
            let mut chunk = vec![0u8; clen];
            let _ = u.fill_buffer(&mut chunk);
            elems.push(Elem::M(WMsg {
                secs: u.arbitrary().unwrap_or(0),
                micros: u.int_in_range(0..=999_999u32).unwrap_or(0),
                storage_ecu: id4(u),
                htyp,
                mcnt: u.arbitrary().unwrap_or(0),
                ecu: id4(u),
                session: u.arbitrary().unwrap_or(0),
                tmsp: u.arbitrary().unwrap_or(0),
                ext: (u.arbitrary().unwrap_or(0), u.arbitrary().unwrap_or(0), id4(u), id4(u)),
                payload: Fill { len, chunk },
            }));
        }
    }
    Stream { serial, elems }
}

fn vals_from(u: &mut Unstructured) -> Vec<Val> {
    let n = u.int_in_range(0..=10usize).unwrap_or(0);
    let mut v = vec![];
    for _ in 0..n {
        let bytes = |u: &mut Unstructured| -> Vec<u8> {
            let l = u.int_in_range(0..=24usize).unwrap_or(0);
            let mut b = vec![0u8; l];
            let _ = u.fill_buffer(&mut b);
            b
        };
        v.push(match u.int_in_range(0..=13u8).unwrap_or(0) {
            0 => Val::Bool(u.arbitrary().unwrap_or(false)),
            1 => Val::U8(u.arbitrary().unwrap_or(0)),
            2 => Val::U16(u.arbitrary().unwrap_or(0)),
            3 => Val::U32(u.arbitrary().unwrap_or(0)),
            4 => Val::U64(u.arbitrary().unwrap_or(0)),
            5 => Val::I8(u.arbitrary().unwrap_or(0)),
            6 => Val::I16(u.arbitrary().unwrap_or(0)),
            7 => Val::I32(u.arbitrary().unwrap_or(0)),
            8 => Val::I64(u.arbitrary().unwrap_or(0)),
            9 => Val::F32(u.arbitrary().unwrap_or(0)),
            10 => Val::F64(u.arbitrary().unwrap_or(0)),
            11 => Val::Utf8(bytes(u)),
            12 => Val::Ascii(bytes(u)),
            _ => Val::Raw(bytes(u)),
        });
    }
    v
}

/// the oracle of a fuzz target on raw bytes
pub fn oracle(target: &str, data: &[u8], rep: &mut Rep) -> Result<(), String> {
    match target {
        "chain_fast" => {
            if data.is_empty() {
                return Ok(());
            }
            let ext = ["dlt", "dlt", "asc", "txt", "log"][data[0] as usize % 5];
            crate::props::c03::run_chain(ext, &data[1..], false, rep, false)
        }
        "chain_plugins" => crate::props::c03::run_chain("dlt", data, true, rep, false),
        "framing" => {
            let mut u = Unstructured::new(data);
            let start: u32 = u.arbitrary().unwrap_or(0) % 1_000_000;
            let extra: u32 = u.int_in_range(0..=9000u32).unwrap_or(0);
            let first = if u.arbitrary::<bool>().unwrap_or(false) { Some(u.int_in_range(-3..=7i32).unwrap_or(0)) } else { None };
            let nsz = u.int_in_range(0..=6usize).unwrap_or(0);
            let sizes: Vec<usize> = (0..nsz).map(|_| u.int_in_range(1..=70_000usize).unwrap_or(1)).collect();
            let stream = stream_from(&mut u);
            // C01: marker clean version of the stream vs the model
            let mut r1 = Rep::default();
            crate::props::c01::check_stream(&(stream.clone(), start), &mut r1)?;
            // C04: chunked reader vs whole buffer (the raw stream, markers allowed)
            crate::props::c04::iter_diff(&(stream, vec![], extra, Sched { first_over_low_mark: first, sizes }, start), rep, false)
        }
        "args" => {
            let mut u = Unstructured::new(data);
            let be: bool = u.arbitrary().unwrap_or(false);
            let enc: u8 = u.int_in_range(0..=1u8).unwrap_or(0);
            let kind: u8 = u.int_in_range(0..=2u8).unwrap_or(0);
            let a: u16 = u.arbitrary().unwrap_or(0);
            let b: u16 = u.arbitrary().unwrap_or(0);
            let vals = vals_from(&mut u);
            crate::props::c18::check_decode(&(vals.clone(), be, enc), rep)?;
            let mut r2 = Rep::default();
            crate::props::c18::check_fault(&(vals, be, kind, a, b), &mut r2)
        }
        _ => Err(format!("unknown fuzz target {}", target)),
    }
}

/// entry point used by the libFuzzer binaries: aborts (so that libFuzzer stores the input) on a failure that is no listed finding
pub fn fuzz_entry(target: &str, data: &[u8]) {
    static INIT: std::sync::Once = std::sync::Once::new();
    INIT.call_once(install_panic_hook);
    let f = |d: &Vec<u8>, rep: &mut Rep| oracle(target, d, rep);
    let (r, rep) = guarded(&f, &data.to_vec());
    if let Err(e) = r {
        if rep.known.is_none() {
            eprintln!("VERIF-FUZZ-FAILURE target={} {}", target, e.chars().take(800).collect::<String>());
            std::process::abort();
        }
    }
}

/// sub check that replays raw inputs of a fuzz target (few random byte strings in the search; mainly the replay entry for artifacts and seeds)
pub fn fuzz_sub(target: &'static str, name: &'static str, cases: u64) -> Box<dyn DynSub> {
    use proptest::prelude::*;
    sub(name, cases, prop::collection::vec(any::<u8>(), 0..600), move |d: &Vec<u8>, rep: &mut Rep| oracle(target, d, rep)).boxed()
}

// ---------------------------------------------------------------------------------------
// campaigns (thorough tier)

#[derive(Debug, Default, serde::Serialize)]
pub struct CampaignResult {
    pub target: String,
    pub executions: u64,
    pub seconds: u64,
    pub jobs: usize,
    pub seed_inputs: usize,
    pub artifacts: Vec<String>,
    pub note: String,
}

/// write a seed corpus for a target: truncated repository files and random/generated inputs
pub fn write_seeds(target: &str, dir: &std::path::Path, seed: u64) -> usize {
    let _ = std::fs::create_dir_all(dir);
    let mut n = 0;
    let mut put = |name: String, data: &[u8]| {
        if std::fs::write(dir.join(name), data).is_ok() {
            n += 1;
        }
    };
    let mut x = seed | 1;
    let mut rnd = move || {
        x ^= x << 13;
        x ^= x >> 7;
        x ^= x << 17;
        x
    };
    match target {
        "chain_fast" | "chain_plugins" => {
            let mut names: Vec<_> = std::fs::read_dir(crate::chain::repo_tests()).map(|rd| rd.flatten().map(|e| e.path()).collect()).unwrap_or_default();
            names.sort();
            for p in names {
                let ext = p.extension().and_then(|e| e.to_str()).unwrap_or("").to_string();
                let tag: Option<u8> = match ext.as_str() {
                    "dlt" => Some(0),
                    "asc" => Some(2),
                    "txt" => Some(3),
                    "log" => Some(4),
                    _ => None,
                };
                if let (Some(tag), Ok(mut data)) = (tag, std::fs::read(&p)) {
                    if target == "chain_plugins" && ext != "dlt" {
                        continue;
                    }
                    data.truncate(12_000);
                    let mut d = if target == "chain_fast" { vec![tag] } else { vec![] };
                    d.extend(data);
                    put(format!("repo_{}", p.file_name().unwrap().to_string_lossy()), &d);
                }
            }
        }
        _ => {}
    }
    for i in 0..24 {
        let len = 20 + (rnd() % 400) as usize;
        let d: Vec<u8> = (0..len).map(|_| rnd() as u8).collect();
        put(format!("rnd_{}", i), &d);
    }
    n
}

/// run libFuzzer on one target; returns what happened (crash artifacts are left in `work`/artifacts)
pub fn campaign(target: &str, seed: u64, secs: u64, jobs: usize, work: &std::path::Path) -> CampaignResult {
    let mut res = CampaignResult { target: target.to_string(), seconds: secs, jobs, ..Default::default() };
    let corpus = work.join(format!("corpus_{}", target));
    let arts = work.join(format!("artifacts_{}", target));
    let _ = std::fs::remove_dir_all(&corpus);
    let _ = std::fs::remove_dir_all(&arts);
    let _ = std::fs::create_dir_all(&arts);
    res.seed_inputs = write_seeds(target, &corpus, seed);
    let logdir = work.join(format!("logs_{}", target));
    let _ = std::fs::remove_dir_all(&logdir);
    let _ = std::fs::create_dir_all(&logdir);
    // libFuzzer's seed: 0 means random -> remap
    let lf_seed = (seed % 0x7fff_fffe) + 1;
    let out = std::process::Command::new("cargo")
        .current_dir(&logdir)
        .args(["+nightly", "fuzz", "run", "--fuzz-dir"])
        .arg(crate::engine::verif_dir().join("fuzz"))
        .arg(target)
        .arg(&corpus)
        .arg("--")
        .arg(format!("-max_total_time={}", secs))
        .arg(format!("-seed={}", lf_seed))
        .args(["-len_control=0", "-max_len=70000", "-timeout=120", "-rss_limit_mb=8000", "-malloc_limit_mb=6000", "-print_final_stats=1"])
        .arg(format!("-jobs={}", jobs))
        .arg(format!("-workers={}", jobs))
        .arg(format!("-artifact_prefix={}/", arts.display()))
        .env("CARGO_NET_OFFLINE", "true")
        .env("TZ", "UTC")
        .env("RAYON_NUM_THREADS", "1")
        .env("TMPDIR", crate::engine::tmp_dir())
        .output();
    match out {
        Err(e) => res.note = format!("cannot run cargo fuzz: {}", e),
        Ok(o) => {
            let mut text = String::from_utf8_lossy(&o.stderr).into_owned();
            // per job logs
            if let Ok(rd) = std::fs::read_dir(&logdir) {
                for e in rd.flatten() {
                    if e.file_name().to_string_lossy().starts_with("fuzz-") {
                        text.push_str(&std::fs::read_to_string(e.path()).unwrap_or_default());
                    }
                }
            }
            for l in text.lines() {
                if let Some(v) = l.strip_prefix("stat::number_of_executed_units:") {
                    res.executions += v.trim().parse::<u64>().unwrap_or(0);
                }
            }
            if res.executions == 0 {
                res.note = format!("no executions counted; exit {:?}; tail: {}", o.status.code(), text.lines().rev().take(5).collect::<Vec<_>>().join(" / "));
            }
            if let Ok(rd) = std::fs::read_dir(&arts) {
                for e in rd.flatten() {
                    let n = e.file_name().to_string_lossy().into_owned();
                    // slow-unit-* files are only performance notes of libFuzzer
                    if n.starts_with("crash-") || n.starts_with("oom-") || n.starts_with("timeout-") || n.starts_with("leak-") {
                        res.artifacts.push(e.path().to_string_lossy().into_owned());
                    }
                }
            }
            res.artifacts.sort();
        }
    }
    res
}
